"""C09 — unit conversion preserves the physical amount.

Decided clauses:
  D1  the shipped unit table (units.toml, and the constants compiled into the crate from it)
      agrees with an independent reference of the international unit definitions; SI prefix
      ratios are the powers of ten;
  D2  convert_f64 has the affine shape ((v + from.difference) * from.ratio) / to.ratio - to.difference
      with from/to in the right roles, and range conversion maps both ends through it;
  D3  conversion to a unit is dominated by the same-physical-quantity test; convert_impl fails
      before it modifies the quantity;
  D4  the best unit is drawn from the designated list of the unit's quantity and requested system.
Not decided: threshold selection, floating-point tolerance, fraction bookkeeping."""
from __future__ import annotations

import os
import re
import tomllib
from collections import Counter
from fractions import Fraction

import harness
from facts import Facts, callee_key, callee_def, norm, operand_local
from flow import resolve, resolve_place, leaves, show, walk
from c03 import _suffix, strip_generics


def feval(expr, env):
    if not re.fullmatch(r"[0-9a-z_+\-*/(). ]+", expr):
        raise ValueError("bad reference expression " + expr)
    e = re.sub(r"(?<![a-z_0-9.])(\d+)(?![\d.])", r"F(\1)", expr)
    return eval(e, {"__builtins__": {}, "F": Fraction}, dict(env))


def shape(e, depth=0):
    """Canonical rendering of a small arithmetic expression (commutative operands sorted)."""
    if not isinstance(e, tuple) or depth > 20:
        return "?"
    t = e[0]
    if t == "bin":
        a, b = shape(e[2], depth + 1), shape(e[3], depth + 1)
        op = e[1].replace("WithOverflow", "")
        if op in ("Add", "Mul"):
            a, b = sorted([a, b])
        return f"({a} {op} {b})"
    if t == "place":
        fields = "".join(p for p in e[2] if p != "*")
        return shape(e[1], depth + 1) + fields
    if t == "param":
        return f"${e[1]}"
    if t == "cast":
        return shape(e[2], depth + 1)
    if t == "ref":
        return shape(e[1], depth + 1)
    if t == "const":
        c = e[1]
        return c.get("f64") or c.get("int") or c.get("bits") or "const"
    if t == "call":
        return f"{strip_generics(e[1]).split('::')[-1]}({', '.join(shape(a, depth + 1) for a in e[2])})"
    if t == "phi":
        return "phi(" + "|".join(sorted(shape(x, depth + 1) for x in e[1])) + ")"
    if t == "un":
        return f"{e[1]}({shape(e[2], depth + 1)})"
    return t


def resolve_rv(f, rv, block):
    from flow import resolve_rvalue
    return resolve_rvalue(f, rv, 0, frozenset(), block)


def return_expr(f):
    """Expression assigned to the return place (phi over all assignments)."""
    return resolve_place(f, {"l": 0, "p": []})


def run(chk: harness.Check):
    paths, th = harness.mir_facts("Q")
    F = Facts(paths)
    chk.explanation = (
        "D1: every unit of units.toml is matched by symbol to an independent reference table built from the defining constants "
        "(231 in^3 gallon, 0.0254 m inch, 0.45359237 kg pound, 273.15 / 459.67 offsets) within 1e-6 relative / 1e-9 absolute; the "
        "(ratio, difference) constants compiled into get_bundled() are the same multiset; SIPrefix::ratio maps each variant to its power of ten. "
        "D2: the MIR expression returned by convert_f64 is canonicalised and compared with the affine formula; Converter::convert_value maps "
        "number, range start and range end through convert_f64 with (from, to) in parameter order. D3: the convert_value call in convert_to_unit "
        "is edge-dominated by equality of the two physical quantities; every assignment to *self in convert_impl is preceded by the fallible steps. "
        "D4: best_unit receivers come from self.best[unit.physical_quantity].conversions(system). D9: the converter's input is Number::value() for numbers and both range ends. D8: convert_impl and fit_fraction replace number and unit in one write, both from the same conversion result. D7: the C12 identity value(new_approx(v)) = v and its limit/saturation guards, claimed here because fit stores that result. D6: expand_si gives a prefixed unit ratio = base.ratio * prefix.ratio() "
        "and the base's difference/quantity/system, and update_expanded_units overwrites all_units[expanded_id] whole with the regenerated unit. D3 also: a value paired with an explicitly requested target unit is the result of convert_to_unit on every path. Shape and lineage only — no value is computed from an input.")
    chk.trusted = ["tables/units_reference.toml (international definitions)", "rustc const evaluation of float literals", "build.rs transfers TOML values verbatim (checked by the multiset comparison)"]
    d1_units(chk, F)
    d2_shape(chk, F)
    d3_guard(chk, F)
    d4_designated(chk, F)
    d5_fit_range(chk, F)
    d6_si_expansion(chk, F, "C09.D6-si-expansion")
    d8_value_unit_together(chk, F)
    d9_input_exact(chk, F)
    # D7: "preserves the amount, any recorded fraction error included" — fitting stores Number::new_approx's result, so the
    # writer/reader identity and the limit/saturation guards decided for C12 are necessary here too
    import c12
    sub = harness.Check("C12", chk.tier)
    c12.run(sub)
    harness.fold(chk, sub, lambda r: "C09.D7-fraction-exact." + r.split(".", 1)[1] if r.startswith("C12.") else r,
                 keep=lambda r: r in ("C12.D1-agreement", "C12.D2-limits", "C12.D6-err-carried", "anchor-missing"))
    chk.analysed["facts"] = th


def d9_input_exact(chk, F):
    """'preserves the amount, any recorded fraction error included': the number handed to the converter is Number::value() —
    whole + err + num/den — for a single number and for both ends of a range, not some other reading of the Number."""
    from cfgq import aggregates
    ks = [k for k in F.funcs if k.endswith("try_from") and "convert::ConvertValue as std::convert::TryFrom<&quantity::Value>" in k]
    if len(ks) != 1:
        chk.fail("anchor-missing", "TryFrom<&Value> for ConvertValue", "", f"anchor-missing: conversion of Value into ConvertValue found {len(ks)} times")
        return
    aggs = aggregates(F, ks[0], "convert::ConvertValue")
    seen = set()
    for ff, i, st, d in aggs:
        v = st["rv"]["variant"]
        seen.add(v)
        e = resolve(ff, list(d.values())[0])
        calls = [l[5:] for l in leaves(e) if l.startswith("call:")]
        nv = sum(1 for n in __import__("flow").walk(e) if n[0] == "call" and n[1].endswith("quantity::Number::value"))
        other = [c for c in calls if not c.endswith(("quantity::Number::value", "RangeInclusive::<Idx>::new"))]
        want = 1 if v == "Number" else 2
        chk.expect(nv == want and not other, "C09.D9-input-exact", f"ConvertValue::{v}", f"{ff.file}:{st.get('line')}",
                   f"the {v.lower()} given to the converter is {show(e, -50)[:120]}: it must be Number::value() (which includes the recorded fraction error)"
                   + (f"; it goes through {sorted(set(c.rsplit('::', 2)[-2] + '::' + c.rsplit('::', 1)[-1] for c in other))}" if other else ""),
                   sample=f"{ff.file}:{st.get('line')}: ConvertValue::{v} ← Number::value()")
    chk.expect({"Number", "Range"} <= seen, "C09.D9-input-exact", "variants", "", f"ConvertValue::Number and ::Range must both be built from a Value; found {sorted(seen)}",
               sample="Number and Range converted")


def d8_value_unit_together(chk, F, rule="C09.D8-value-unit-together"):
    """A converted / fitted quantity gets its number and its unit in ONE write, both taken from the same conversion
    result: `*self = Quantity::new(value, Some(unit.symbol()))`. Writing self.value and self.unit separately lets one path
    update the number and keep the old unit label (the amount is then off by the ratio of the two units)."""
    from flow import resolve_rvalue, leaves, show
    for name, src in (("convert_impl", "convert::Converter::convert"), ("fit_fraction", "Iterator::min_by")):
        fs = [f for f in F.funcs.values() if f.key.endswith("::" + name) and "Quantity" in f.key and not f.is_closure()]
        if len(fs) != 1:
            chk.fail("anchor-missing", name, "", f"anchor-missing: Quantity::{name} found {len(fs)} times")
            continue
        f = fs[0]
        whole, parts = [], []
        for i, j, st in f.iter_stmts():
            if st["k"] != "assign" or not st["place"]["p"] or f.local_name(st["place"]["l"]) != "self":
                continue
            pr = st["place"]["p"]
            if pr == ["*"]:
                whole.append((i, st))
            elif pr[-1] in (".value", ".unit"):
                parts.append((i, st, pr[-1]))
        for b, t in f.calls():
            if t["dest"]["p"] == ["*"] and f.local_name(t["dest"]["l"]) == "self":
                whole.append((b, {"rv": None, "line": t.get("line"), "call": t}))
        for i, st, fld in parts:
            chk.fail(rule, f"{name}|separate{fld}", f"{f.file}:{st.get('line')}",
                     f"{name} writes self{fld} on its own: number and unit of a converted quantity must be replaced together")
        chk.floor(rule, f"{name}|whole writes of *self", len(whole), 1, f"{f.file}:{f.line}")
        for i, st in whole:
            if st.get("rv") is None:
                t = st["call"]
                e = ("call", callee_key(t) or "", tuple(resolve(f, a) for a in t["args"]), i)
            else:
                e = resolve_rvalue(f, st["rv"], 0, frozenset(), i)
            ok = e[0] == "call" and e[1].endswith("Quantity::<V>::new") and len(e[2]) == 2
            if ok:
                lv, lu = leaves(e[2][0]), leaves(e[2][1])
                ok = any(l.endswith(src) for l in lv) and any(l.endswith(src) for l in lu) and any(l.endswith("Unit::symbol") for l in lu)
            chk.expect(ok, rule, f"{name}|*self", f"{f.file}:{st.get('line')}",
                       f"{name} must replace the quantity by Quantity::new(value, Some(unit.symbol())) with value and unit from the same `{src.rsplit('::', 1)[-1]}` result; "
                       f"it writes {show(e, -50)[:120]}", sample=f"{f.file}:{st.get('line')}: *self = Quantity::new(new_value, Some(new_unit.symbol()))")


def d6_si_expansion(chk, F, rule):
    """A prefixed unit is its base unit scaled by the prefix: expand_si gives it ratio = base.ratio * prefix.ratio(),
    the base's difference / physical quantity / system; and when an `extend` layer edits the base unit,
    update_expanded_units replaces each generated unit WHOLE by the regenerated one (only aliases are restored)."""
    from cfgq import aggregates
    from flow import resolve, resolve_rvalue, leaves, show
    gs = [g for g in F.find("convert::builder::expand_si") if not g.is_closure()]
    us = [g for g in F.find("convert::builder::update_expanded_units") if not g.is_closure()]
    if len(gs) != 1 or len(us) != 1:
        chk.fail("anchor-missing", "expand_si/update_expanded_units", "", "anchor-missing: expand_si or update_expanded_units not found")
        return
    g, u = gs[0], us[0]
    aggs = aggregates(F, g.key, "convert::Unit")
    chk.floor(rule, "Unit constructions in expand_si", len(aggs), 1, f"{g.file}:{g.line}")
    for ff, i, st, d in aggs:
        where = f"{ff.file}:{st.get('line')}"
        e = resolve(ff, d["ratio"])
        ls = leaves(e)
        txt = show(e, -50)
        ok = e[0] == "bin" and e[1].startswith("Mul") and any(l.endswith("SIPrefix::ratio") for l in ls) and any(l in ("param:unit", "upvar:unit") for l in ls) and ".ratio Mul " in txt + " " \
            and not any(op in txt for op in (" Div ", " Add ", " Sub "))
        chk.expect(ok, rule, "expand_si|ratio", where, f"a prefixed unit's ratio must be base.ratio * prefix.ratio(); it is {txt[:120]}",
                   sample=f"{where}: ratio = unit.ratio * prefix.ratio()")
        for fld in ("difference", "physical_quantity", "system"):
            e = resolve(ff, d[fld])
            # `..unit.unit.clone()` (struct update from a clone of the base): the field of the clone is the field of the base
            if e[0] == "place" and e[1][0] == "call" and e[1][1].endswith("Clone>::clone") and e[1][2]:
                inner = e[1][2][0]
                while inner[0] == "ref":
                    inner = inner[1]
                e = ("place", inner, e[2]) + tuple(e[3:])
            ls = leaves(e)
            ok = e[0] in ("place", "upvar", "param") and any(l.split(".")[0] in ("param:unit", "upvar:unit") for l in ls) and show(e, -50).endswith("." + fld)
            chk.expect(ok, rule, f"expand_si|{fld}", where, f"a prefixed unit must inherit the base unit's {fld}; it gets {show(e, -50)[:100]}",
                       sample=f"{where}: {fld} = unit.{fld}")
    whole = []
    partial = []
    for i, j, st in u.iter_stmts():
        if st["k"] != "assign" or not st["place"]["p"]:
            continue
        base, proj = u.local_name(st["place"]["l"]), st["place"]["p"]
        e = resolve_rvalue(u, st["rv"], 0, frozenset(), i)
        if base == "all_units" and proj[-1].startswith("["):
            whole.append((i, st, e))
        elif proj[-1] in (".ratio", ".difference", ".physical_quantity", ".system") and not any(l.endswith("builder::expand_si") for l in leaves(e)):
            partial.append((i, st, proj[-1]))
    ok = len(whole) >= 1 and all(any(l.endswith("builder::expand_si") for l in leaves(e)) for _, _, e in whole)
    chk.expect(ok, rule, "update_expanded_units|whole-replace", f"{u.file}:{u.line}",
               "update_expanded_units no longer overwrites all_units[expanded_id] with the unit regenerated by expand_si: after an `extend` layer "
               "changes the base unit's ratio or difference, its prefixed units keep the stale definition",
               sample=f"{u.file}:{whole[0][1].get('line') if whole else u.line}: all_units[expanded_id] = regenerated unit")
    for i, st, fld in partial:
        chk.fail(rule, f"update_expanded_units|stale{fld}", f"{u.file}:{st.get('line')}",
                 f"update_expanded_units writes {fld} of a generated unit from something other than the regenerated unit (stale definition)")


def load_units():
    with open(os.path.join(harness.REPO, "units.toml"), "rb") as fh:
        return tomllib.load(fh)


def iter_units(uf):
    for g in uf.get("quantity", []):
        us = g.get("units")
        if us is None:
            continue
        if isinstance(us, list):
            for u in us:
                yield g["quantity"], None, u
        else:
            for sysname in ("metric", "imperial", "unspecified"):
                for u in us.get(sysname, []):
                    yield g["quantity"], sysname, u


def d1_units(chk, F):
    with open(os.path.join(harness.VERIF, "tables", "units_reference.toml"), "rb") as fh:
        ref = tomllib.load(fh)
    env = {}
    for k, v in ref["defs"].items():
        env[k] = feval(v, env)
    refunits = {}
    for sym, r in ref["unit"].items():
        refunits[sym] = (r["quantity"], feval(r["ratio"], env), feval(r.get("difference", "0"), env))
    try:
        uf = load_units()
    except Exception as e:
        chk.fail("anchor-missing", "units.toml", "units.toml", f"anchor-missing: cannot read units.toml: {e}")
        return
    n = 0
    shipped = Counter()
    for q, sysname, u in iter_units(uf):
        n += 1
        syms = [s for s in u.get("symbols", [])]
        ratio = float(u.get("ratio"))
        diff = float(u.get("difference", 0.0))
        shipped[(repr(ratio), repr(diff))] += 1
        hit = [s for s in syms if s in refunits]
        label = (u.get("names") or syms or ["?"])[0]
        key = f"unit:{label}"
        if not hit:
            # a unit the reference does not know: not an alarm (adding a correct unit keeps the property), listed in the evidence
            chk.notes.setdefault("units_without_reference", []).append(f"{label} ({q}, ratio {ratio})")
            continue
        rq, rr, rd = refunits[hit[0]]
        rel = abs(ratio - float(rr)) / abs(float(rr))
        ok = rq == q and rel <= 1e-6 and abs(diff - float(rd)) <= 1e-9
        chk.expect(ok, "C09.D1-table", key, "units.toml",
                   f"unit `{label}`: shipped ({q}, ratio {ratio}, difference {diff}) disagrees with its definition ({rq}, ratio {float(rr):.12g}, difference {float(rd)})",
                   sample=f"{label}: ratio {ratio} vs {float(rr):.12g} (rel {rel:.1e}), difference {diff} vs {float(rd)}")
    chk.floor("C09.D1-table", "units in units.toml", n, 20)
    # compiled-in constants
    gb = F.find("units_file::__bundled_units::get_bundled")
    if len(gb) != 1:
        chk.fail("anchor-missing", "get_bundled", "", "anchor-missing: generated get_bundled() not found (bundled_units feature off?)")
    else:
        f = gb[0]
        compiled = Counter()
        for i, j, s in f.iter_stmts():
            rv = s.get("rv", {})
            if rv.get("k") == "agg" and rv.get("agg") == "adt" and norm(rv["adt"]).endswith("UnitEntry"):
                d = dict(zip(rv["fields"], rv["ops"]))
                r = resolve(f, d["ratio"])
                df = resolve(f, d["difference"])
                if r[0] == "const" and df[0] == "const":
                    compiled[(repr(float(r[1]["f64"])), repr(float(df[1]["f64"])))] += 1
        chk.expect(compiled == shipped, "C09.D1-compiled", "get_bundled constants", f"{f.file}",
                   f"(ratio, difference) constants compiled into get_bundled() differ from units.toml: only-compiled {dict(compiled - shipped)}, only-file {dict(shipped - compiled)}",
                   sample=f"{sum(compiled.values())} compiled (ratio, difference) pairs equal the file's multiset")
    # SI prefixes
    rf = F.find("units_file::SIPrefix::ratio")
    if len(rf) != 1:
        chk.fail("anchor-missing", "SIPrefix::ratio", "", "anchor-missing: SIPrefix::ratio not found")
        return
    f = rf[0]
    variants = {}
    sw = [(b, t) for b, t in f.iter_terms("switch")]
    discr = None
    for i, j, s in f.iter_stmts():
        if s["rv"]["k"] == "discr":
            discr = {v[0]: v[1] for v in s["rv"]["variants"]}
    if not sw or discr is None:
        chk.fail("anchor-missing", "SIPrefix::ratio switch", f"{f.file}:{f.line}", "anchor-missing: SIPrefix::ratio is not a match on self")
        return
    for val, tgt in sw[0][1]["targets"]:
        for s in f.blocks[tgt]["stmts"]:
            if s["k"] == "assign" and s["place"]["l"] == 0 and "const" in s["rv"].get("op", {}):
                variants[discr[val]] = float(s["rv"]["op"]["const"]["f64"])
    for name, expr in ref["si"].items():
        want = float(feval(expr, {}))
        got = variants.get(name.capitalize())
        chk.expect(got is not None and abs(got - want) <= 1e-12 * want, "C09.D1-si", f"prefix:{name}", f"{f.file}:{f.line}",
                   f"SIPrefix::{name.capitalize()} ratio is {got}, expected {want}", sample=f"{name}: {got}")


def d2_shape(chk, F):
    fs = [f for f in F.find("convert::convert_f64") if f.key == "cooklang::convert::convert_f64"]
    if len(fs) != 1:
        chk.fail("anchor-missing", "convert_f64", "", "anchor-missing: free function convert::convert_f64 not found")
        return
    f = fs[0]
    got = shape(return_expr(f))
    import ratfun
    from ratfun import Rat, Poly

    def leafname(e):
        if e[0] == "param":
            return f"p{e[1]}"
        if e[0] == "place" and e[1][0] == "param":
            flds = [p for p in e[2] if p != "*"]
            if len(flds) == 1:
                return f"p{e[1][1]}{flds[0]}"
        return None
    V = lambda n: Rat(Poly.var(n))
    want = ((V("p1") + V("p2.difference")) * V("p2.ratio")) / V("p3.ratio") - V("p3.difference")
    try:
        rf = ratfun.from_expr(return_expr(f), leafname)
        same = rf.same(want)
    except ValueError as ex:
        same = False
        got += f" [{ex}]"
    chk.expect(same, "C09.D2-affine", "convert_f64", f"{f.file}:{f.line}",
               f"convert_f64 computes {got}, which is not the affine conversion ((value + from.difference) * from.ratio) / to.ratio - to.difference "
               f"as a rational function ($1 = value, $2 = from, $3 = to)",
               sample=f"convert_f64 returns {got} ≡ ((v + from.d)·from.r)/to.r − to.d (rational-function equality)")
    # Converter::convert_f64 forwards (value, from, to) in order
    ws = [g for g in F.find("Converter::convert_f64")]
    if len(ws) != 1:
        chk.fail("anchor-missing", "Converter::convert_f64", "", "anchor-missing: Converter::convert_f64 not found")
    else:
        g = ws[0]
        calls = [(b, t) for b, t in g.calls() if callee_key(t) == "cooklang::convert::convert_f64"]
        ok = len(calls) == 1 and [shape(resolve(g, a)) for a in calls[0][1]["args"]] == ["$2", "$3", "$4"]
        chk.expect(ok, "C09.D2-affine", "Converter::convert_f64 forwarding", f"{g.file}:{g.line}",
                   f"Converter::convert_f64 does not forward (value, from, to) in order: {[[shape(resolve(g, a)) for a in t['args']] for _, t in calls]}",
                   sample="forwards (value, from, to) = ($2, $3, $4)")
        # the identity fast path returns the value itself, and only when from and to are the same unit
        rets = shape(return_expr(g))
        chk.expect("$2" in rets, "C09.D2-affine", "Converter::convert_f64 fast path", f"{g.file}:{g.line}",
                   f"fast path of Converter::convert_f64 does not return the input value ({rets})", sample=f"returns {rets}")
        from cfgq import call_result_edges
        idblocks = [i for i, j, s_ in g.iter_stmts() if s_["k"] == "assign" and s_["place"]["l"] == 0 and not s_["place"]["p"]
                    and shape(resolve_rv(g, s_["rv"], i)) == "$2"]
        eqs = [(b, t) for b, t in g.calls() if (callee_key(t) or "").endswith("ptr::eq")
               and sorted(shape(resolve(g, a)) for a in t["args"]) == ["$3", "$4"]]
        okfast = bool(idblocks) and bool(eqs)
        for ib in idblocks:
            okfast = okfast and any(g.edge_dominates(e, ib) for b, t in eqs for e in call_result_edges(g, b)[0])
        chk.expect(okfast or not idblocks, "C09.D2-affine", "Converter::convert_f64 fast path guard", f"{g.file}:{g.line}",
                   "Converter::convert_f64 returns its input unconverted on a path that is not guarded by `from` and `to` being the same unit "
                   "(offset units such as °C/°F would keep their number)",
                   sample="the unconverted return is dominated by ptr::eq(from, to)")
    cv = F.find("Converter::convert_value")
    if len(cv) != 1:
        chk.fail("anchor-missing", "Converter::convert_value", "", "anchor-missing: Converter::convert_value not found")
        return
    g = cv[0]
    calls = [(b, t) for b, t in g.calls() if (callee_key(t) or "").endswith("Converter::convert_f64")]
    firsts = []
    okargs = True
    for b, t in calls:
        a = [shape(resolve(g, x)) for x in t["args"]]
        firsts.append(a[1])
        if a[0] != "$1" or a[2:] != ["$3", "$4"]:
            okargs = False
    def is_start(x):        # `*r.start()`  or  `r.into_inner().0`
        return "start" in x or ("into_inner" in x and x.rstrip(")").endswith(".0"))

    def is_end(x):
        return "end" in x or ("into_inner" in x and x.rstrip(")").endswith(".1"))
    has_start = any(is_start(x) for x in firsts)
    has_end = any(is_end(x) for x in firsts)
    chk.expect(len(calls) == 3 and okargs and has_start and has_end, "C09.D2-range", "convert_value", f"{g.file}:{g.line}",
               f"convert_value must convert the number, the range start and the range end with (from, to) unchanged; found value operands {firsts}",
               sample=f"three conversions: {firsts}")
    # the new range is (converted start ..= converted end)
    for b, t in g.calls():
        if _suffix(callee_key(t) or "", "RangeInclusive::new"):
            a = [resolve(g, x) for x in t["args"]]
            s0 = show(a[0])
            s1 = show(a[1])
            in0 = re.search(r"convert_f64\((.*)\)", s0)
            in1 = re.search(r"convert_f64\((.*)\)", s1)
            chk.expect(bool(in0 and in1) and is_start(in0.group(1).split(", ")[1] if ", " in in0.group(1) else in0.group(1)) and
                       is_end(in1.group(1).split(", ")[1] if ", " in in1.group(1) else in1.group(1)), "C09.D2-range", "convert_value range ends",
                       g.where(b), f"converted range is built from ({s0}, {s1}) instead of (converted start, converted end)",
                       sample=f"RangeInclusive::new({s0[:60]}…, {s1[:60]}…)")


def d3_guard(chk, F):
    fs = F.find("Converter::convert_to_unit")
    if len(fs) != 1:
        chk.fail("anchor-missing", "convert_to_unit", "", "anchor-missing: Converter::convert_to_unit not found")
    else:
        f = fs[0]
        cmp_calls = []
        for b, t in f.calls():
            ck = callee_key(t) or ""
            m = re.search(r"<convert::PhysicalQuantity as std::cmp::PartialEq>::(eq|ne)$", ck)
            if not m and "PhysicalQuantity" in " ".join(t["callee"].get("args", [])):
                m = re.search(r"std::cmp::PartialEq::(eq|ne)$", callee_def(t) or "")
            if m:
                args = [shape(resolve(f, a)) for a in t["args"]]
                cmp_calls.append((b, t, m.group(1), args))
        good = [c for c in cmp_calls if sorted(c[3]) == ["$3.physical_quantity", "$4.physical_quantity"]]
        tgt = [b for b, t in f.calls() if (callee_key(t) or "").endswith("Converter::convert_value")]
        if not good or not tgt:
            chk.fail("C09.D3-guard", "convert_to_unit", f"{f.file}:{f.line}",
                     "convert_to_unit no longer compares unit.physical_quantity with target_unit.physical_quantity before converting"
                     if not good else "convert_to_unit no longer calls convert_value")
        else:
            b, t, which, _ = good[0]
            d = operand_local({"move": t["dest"]})
            # edges on which the two quantities are known equal; bool_edges follows copies and `!` (a hoisted `let same = a == b;`)
            from cfgq import bool_edges
            te, fe = bool_edges(f, t["dest"]["l"])
            equal_edges = fe if which == "ne" else te
            ok = bool(equal_edges) and all(any(f.edge_dominates(e_, x) for e_ in equal_edges) for x in tgt)
            chk.expect(ok, "C09.D3-guard", "convert_to_unit", f.where(tgt[0]),
                       "the conversion in convert_to_unit is not guarded by equality of the two physical quantities (guard removed or inverted)",
                       sample=f"{f.where(tgt[0])}: convert_value dominated by physical_quantity equality ({which} at {f.where(b)})")
            # the other outcome returns MixedQuantities
            has_err = any(s.get("rv", {}).get("k") == "agg" and s["rv"].get("variant") == "MixedQuantities" for _, _, s in f.iter_stmts())
            chk.expect(has_err, "C09.D3-guard", "convert_to_unit error", f"{f.file}:{f.line}", "convert_to_unit no longer returns ConvertError::MixedQuantities",
                       sample="mismatch returns ConvertError::MixedQuantities")
    # Converter::convert: a value paired with an explicitly requested target unit always went through convert_to_unit (the only place
    # where differing physical quantities are refused) — no shortcut that relabels the value
    cs = [g for g in F.find("convert::Converter::convert") if not g.is_closure()]
    if len(cs) != 1:
        chk.fail("anchor-missing", "Converter::convert", "", f"anchor-missing: Converter::convert found {len(cs)} times")
    else:
        c = cs[0]

        def flat(e):
            while e[0] == "call" and e[1].endswith(("Try>::branch", "Into<U>>::into", "From<T>>::from")) and e[2]:
                e = e[2][0]
            if e[0] == "place" and e[1][0] == "call" and e[1][1].endswith("Try>::branch"):
                return flat(e[1][2][0])
            if e[0] == "phi":
                out = []
                for a in e[1]:
                    out += flat(a)
                return out
            return [e]
        n = 0
        for i, j, st in c.iter_stmts():
            rv = st.get("rv", {})
            if st["k"] == "assign" and rv.get("k") == "agg" and rv.get("agg") == "tuple" and len(rv["ops"]) == 2:
                unit_e = resolve(c, rv["ops"][1])
                if unit_e[0] == "phi" or any(x[0] == "phi" for x in walk(unit_e)) or not any(l.endswith("Converter::get_unit") for l in leaves(unit_e)) or "as Unit.0" not in show(unit_e, -200):
                    continue
                n += 1
                alts_ = flat(resolve(c, rv["ops"][0]))
                bad = [a for a in alts_ if not (a[0] == "call" and a[1].endswith("Converter::convert_to_unit"))]
                chk.expect(not bad, "C09.D3-guard", "Converter::convert|to-unit", f"{c.file}:{st.get('line')}",
                           f"a value can be returned for an explicitly requested target unit without passing through convert_to_unit ({show(bad[0], -60)[:80] if bad else ''}): "
                           "units of different physical quantities would be relabelled instead of refused",
                           sample=f"{c.file}:{st.get('line')}: (value, target) ← convert_to_unit(..)? on every path")
        chk.floor("C09.D3-guard", "(value, requested unit) results in Converter::convert", n, 1, f"{c.file}:{c.line}")
    # convert_impl: every write of *self is preceded by the fallible steps
    fs = [f for f in F.find("convert_impl") if "Quantity" in f.key and not f.is_closure()]
    if len(fs) != 1:
        chk.fail("anchor-missing", "convert_impl", "", f"anchor-missing: Quantity::convert_impl not found ({len(fs)})")
        return
    f = fs[0]
    writes = [i for i, j, s in f.iter_stmts() if s["k"] == "assign" and s["place"]["l"] == 1 and s["place"]["p"] == ["*"]]
    writes += [t.get("target", b) for b, t in f.calls() if t["dest"]["l"] == 1 and t["dest"]["p"] == ["*"]]
    if not writes:
        chk.fail("anchor-missing", "convert_impl write", f"{f.file}:{f.line}", "anchor-missing: convert_impl has no assignment to *self")
        return
    for through, what in (("TryFrom<&quantity::Value>>::try_from", "text-value rejection"), ("Converter::convert", "the conversion itself"),
                          ("Quantity::unit_info", "unit lookup")):
        K = [b for b, t in f.calls() if _suffix(callee_key(t) or "", through)]
        reach = f.reach_from(0, removed_nodes=K) if K else f.live
        bad = [w for w in writes if w in reach]
        chk.expect(bool(K) and not bad, "C09.D3-errors-before-mutation", f"convert_impl|{through}", f.where(writes[0]),
                   f"convert_impl can modify the quantity without passing through {what} ({through}): a failed conversion would leave it changed",
                   sample=f"every write of *self is preceded by {through}")


def d4_designated(chk, F):
    fs = F.find("Converter::convert_to_best")
    if len(fs) != 1:
        chk.fail("anchor-missing", "convert_to_best", "", "anchor-missing: Converter::convert_to_best not found")
        return
    f = fs[0]
    calls = [(b, t) for b, t in f.calls() if (callee_key(t) or "").endswith("BestConversions::best_unit")]
    if len(calls) != 1:
        chk.fail("C09.D4-designated", "convert_to_best", f"{f.file}:{f.line}", f"convert_to_best calls best_unit {len(calls)} times")
        return
    b, t = calls[0]
    e = resolve(f, t["args"][0])
    s = show(e)
    ls = leaves(e)
    ok = any(l.endswith("BestConversionsStore::conversions") for l in ls) and "param:self.best" in ls and \
        "param:unit.physical_quantity" in ls and "param:system" in ls
    chk.expect(ok, "C09.D4-designated", "convert_to_best", f.where(b),
               f"best unit is not drawn from self.best[unit.physical_quantity].conversions(system): receiver is {s}",
               sample=f"best_unit receiver: {s[:140]}")
    # the value converted is the caller's value towards that best unit
    cv = [(bb, tt) for bb, tt in f.calls() if (callee_key(tt) or "").endswith("Converter::convert_value")]
    if cv:
        a = [show(resolve(f, x)) for x in cv[0][1]["args"]]
        a[2] = shape(resolve(f, cv[0][1]["args"][2]))
        chk.expect("best_unit" in a[3] and a[2] == "$3", "C09.D4-designated", "convert_to_best target", f.where(cv[0][0]),
                   f"convert_to_best converts towards {a[3][:80]} from {a[2]}", sample=f"convert_value(value, unit, best_unit)")
    # fit_fraction draws candidates from the same store
    ff = [g for g in F.funcs.values() if g.key.endswith("::fit_fraction") and "Quantity" in g.key]
    if len(ff) != 1:
        chk.fail("anchor-missing", "fit_fraction", "", "anchor-missing: Quantity::fit_fraction not found")
        return
    g = ff[0]
    cc = [(bb, tt) for bb, tt in g.calls() if (callee_key(tt) or "").endswith("BestConversionsStore::conversions")]
    ok = False
    for bb, tt in cc:
        ls = set()
        txt = ""
        for a in tt["args"]:
            ls |= leaves(resolve(g, a))
            txt += show(resolve(g, a))
        if "param:converter.best" in ls and "physical_quantity" in txt and "unit" in txt:
            ok = True
    chk.expect(ok, "C09.D4-designated", "fit_fraction", f"{g.file}:{g.line}",
               "fit_fraction no longer draws its candidate units from converter.best[unit.physical_quantity].conversions(system)",
               sample="fit_fraction candidates: converter.best[unit.physical_quantity].conversions(system)")


def d5_fit_range(chk, F, rule="C09.D5-fit-range"):
    """fit_fraction re-expresses a range in the selected unit: both ends of the new Value::Range must be values
    converted to that unit (every alternative of `end` goes through convert_f64 of the old end)."""
    ff = [g for g in F.funcs.values() if g.key.endswith("::fit_fraction") and "Quantity" in g.key and not g.is_closure()]
    if len(ff) != 1:
        chk.fail("anchor-missing", "fit_fraction", "", f"anchor-missing: Quantity::fit_fraction found {len(ff)} times")
        return
    g = ff[0]
    from cfgq import aggregates
    n = 0
    for f2, i, s_, d in aggregates(F, g.key, "quantity::Value", "Range"):
        if f2 is not g:
            continue
        n += 1
        where = f"{g.file}:{s_.get('line')}"
        for fld in ("start", "end"):
            e = resolve(g, d[fld])
            raw = _unconverted(e)
            chk.expect(not raw, rule, f"fit_fraction|Range.{fld}", where,
                       f"when a range is fitted to a fraction in another unit, its {fld} can keep the number it had in the old unit ({raw[0][:80] if raw else ''}): "
                       "the range would mix two units", sample=f"{where}: Range.{fld} always derives from a convert_f64(..) to the new unit")
    chk.floor(rule, "Range constructions in fit_fraction", n, 1, f"{g.file}:{g.line}")


def _unconverted(e, depth=0):
    """leaf renderings of the old quantity's own numbers reachable without passing a convert_f64 call"""
    if not isinstance(e, tuple) or depth > 40:
        return []
    t = e[0]
    if t == "call":
        if e[1].endswith("convert_f64"):
            return []
        out = []
        for a in e[2]:
            if a[0] == "agg" and a[1] == "closure":
                continue
            out += _unconverted(a, depth + 1)
        return out
    if t == "place":
        if any(p.startswith("as Range") or p.startswith("as Number") for p in e[2]) and "self" in show(e[1], -50):
            return [show(e, -50)]
        return _unconverted(e[1], depth + 1)
    if t in ("ref", "discr", "repeat"):
        return _unconverted(e[1], depth + 1)
    if t == "phi":
        return [x for a in e[1] for x in _unconverted(a, depth + 1)]
    if t == "agg":
        return [x for _, a in e[4] for x in _unconverted(a, depth + 1)]
    if t == "bin":
        return _unconverted(e[2], depth + 1) + _unconverted(e[3], depth + 1)
    if t in ("un", "cast"):
        return _unconverted(e[2], depth + 1)
    return []
