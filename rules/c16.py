"""C16 — converters built from configuration layers are consistent or rejected.

Decided clauses (partial):
  D1  totality: the C03 inventories (failure sites, narrow arithmetic, loops) restricted to
      everything reachable from the converter builder;
  D2  every insertion into a key index has its result checked, or is a reviewed override;
  D3  the shipped units file is internally consistent (distinct keys incl. SI expansions, best
      lists name units of their own quantity/system, fraction keys exist);
  D4  build.rs reads every key the shipped file uses (nothing is silently ignored).
Not decided: layer precedence semantics, threshold order, equality of default and built converter."""
from __future__ import annotations

import json
import os
import tomllib
from collections import defaultdict

import harness
import c03
from c03 import _suffix
from c09 import load_units, iter_units
from facts import Facts, callee_key, region_of, operand_local


def builder_regions(F: Facts):
    entries = [k for k, f in F.funcs.items()
               if k.startswith("cooklang::convert::builder::") and not f.generated and not f.is_closure()]
    for suffix in ("convert::Converter::bundled", "convert::units_file::UnitsFile::bundled"):
        entries += [f.key for f in F.find(suffix)]
    reach = F.reach(entries)
    regions = set()
    for k in reach:
        f = F.funcs.get(k)
        if f is None or f.crate != "cooklang":
            continue
        if ("::convert::" in k or k.startswith("cooklang::<convert::")) and not f.generated:
            regions.add(region_of(k))
    return regions, entries


def run(chk: harness.Check):
    paths, th = harness.mir_facts("Q")
    F = Facts(paths)
    chk.explanation = (
        "D1 restricts the C03 inventories (explicit failure sites, narrow-integer arithmetic, loop progress) to the functions reachable "
        "from the converter builder and the bundled-units constructor; D2 checks on MIR that the result of every HashMap::insert into a "
        "unit/fraction index is consumed (duplicate detection) or is a reviewed override; D3 re-derives, from units.toml alone, the key "
        "space the builder will index (names, symbols, aliases and their declared SI expansions) and checks it is collision-free, that best "
        "lists name units of their own quantity and system, and that fraction entries name existing units; D4 compares the key paths used in "
        "units.toml with the string keys build.rs reads; D5-D7 pin the empty-best rejection, alias carry-over and remove→edit→add re-indexing order of the extend "
        "machinery; D8: in finish the best lists and the fractions configuration are computed after apply_extend_groups, which follows SI expansion; D12: a layer's extend block is only ever pushed onto self.extend; D11: every iteration of the quantity-group loop of add_units_file examines the group's best list; D10: every join takes data and precedence from the same incoming layer and joins same-named fields; join_alias_vec / join_prefixes implement Before / After / Override as documented; D9: "
        "prefixed units are regenerated whole from the edited base unit (ratio = base.ratio * prefix.ratio()); D13: every generated SI unit is registered with add_unit (no skipped slot in expanded_units). Necessary conditions of 'consistent or rejected'; layer semantics are not decided.")
    chk.trusted = ["tables/panics.toml, narrow_arith.toml, progress.toml", "tomllib parse of units.toml", "synfacts extraction of build.rs string keys"]
    regions, entries = builder_regions(F)
    chk.analysed = {"facts": th, "builder_entry_functions": len(entries), "regions": len(regions)}
    chk.floor("C16.D1-reach", "builder regions", len(regions), 20)
    n, _ = c03.d1_inventory(chk, F, pid="C16", only_regions=regions)
    chk.floor("C16.D1-inventory", "failure sites in builder reach", n, 5)
    c03.d2_arith(chk, F, pid="C16", only_regions=regions)
    c03.d3_progress(chk, F, pid="C16", only_regions=regions)
    d2_inserts(chk, F, regions)
    d5_empty_best(chk, F)
    d6_alias_carry_over(chk, F)
    d7_reindex_order(chk, F)
    d8_finish_order(chk, F)
    d13_every_prefix_registered(chk, F)
    d10_precedence(chk, F)
    d11_every_part(chk, F)
    d12_layers_kept(chk, F)
    import c09
    c09.d6_si_expansion(chk, F, "C16.D9-si-expansion")
    d3_shipped(chk)
    d4_build_keys(chk)


def d2_inserts(chk, F, regions):
    with open(os.path.join(harness.VERIF, "tables", "inserts.toml"), "rb") as fh:
        tab = tomllib.load(fh)
    allow = {(a["function"], a["map"]): a for a in tab.get("override", []) if a["property"] == "C16"}
    n = 0
    for region in sorted(regions):
        for f in F.region_funcs(region):
            for b, t in f.calls():
                ck = callee_key(t) or ""
                if not (ck.endswith("HashMap::<K, V, S, A>::insert") or ck.endswith("BTreeMap::<K, V, A>::insert")):
                    continue
                n += 1
                if f.file.startswith("/"):
                    continue  # build-script output (keys come from a parsed TOML table: unique by construction)
                used = result_used(f, t)
                mapname = recv_name(f, t["args"][0])
                key = f"{region}|insert|{mapname}"
                if used:
                    chk.ok("C16.D2-insert-checked", key, f"{f.where(b)}: result of insert into {mapname} is inspected")
                else:
                    a = allow.get((region, mapname))
                    chk.expect(a is not None, "C16.D2-insert-checked", key, f.where(b),
                               f"result of the insert into `{mapname}` in {region} is discarded: a duplicate key silently replaces the previous entry",
                               sample=f"{f.where(b)}: reviewed override — {a['reason']}" if a else None)
    chk.floor("C16.D2-insert-checked", "index inserts in the builder", n, 3)


def d5_empty_best(chk, F):
    """The unwrap of the first best unit (BestConversions::new) is discharged by add_units_file rejecting empty
    best lists: every `is_empty` test on a best list must make the store unreachable from its is-empty outcome."""
    from flow import resolve, leaves, show
    fs = F.find("ConverterBuilder::add_units_file")
    if len(fs) != 1:
        chk.fail("anchor-missing", "add_units_file", "", "anchor-missing: ConverterBuilder::add_units_file not found")
        return
    f = fs[0]
    stores = []
    for b, t in f.calls():
        ck = callee_key(t) or ""
        if ck.endswith("::index_mut") and t.get("args"):
            if any(".best_units" in l for l in leaves(resolve(f, t["args"][0]))):
                stores.append(t.get("target", b))
    if not stores:
        chk.fail("anchor-missing", "add_units_file store", f"{f.file}:{f.line}", "anchor-missing: store into self.best_units not found")
        return
    tests = []
    for b, t in f.calls():
        ck = callee_key(t) or ""
        if ck.endswith("Vec::<T, A>::is_empty") and f.local_ty(operand_local(t["args"][0]) or 0).replace(" ", "").endswith("Vec<std::string::String>"):
            tests.append((b, t))
    chk.floor("C16.D5-empty-best", "is_empty tests on best lists", len(tests), 3, f"{f.file}:{f.line}")
    for b, t in tests:
        from cfgq import call_result_edges
        te, _fe = call_result_edges(f, b)        # follows copies and `!` of the result (e.g. a named local `has_empty_list`)
        if not te:
            chk.fail("C16.D5-empty-best", f"add_units_file|is_empty@{len(tests)}", f.where(b), "result of the is_empty test on a best list does not control a branch")
            continue
        bad = []
        for (_u, empty_target) in te:
            reach = f.reach_path_sensitive(empty_target)
            bad += [x for x in stores if x in reach]
        chk.expect(not bad, "C16.D5-empty-best", f"add_units_file|is_empty#{tests.index((b, t))}", f.where(b),
                   "an empty best-units list can reach the store into self.best_units: BestConversions::new then unwraps the first element of an empty list",
                   sample=f"{f.where(b)}: the is-empty outcome cannot reach the store (returns EmptyBest)")


def d6_alias_carry_over(chk, F):
    """Re-expanding a unit after an `extend` edit regenerates names and symbols only: the aliases a
    generated unit already had (declared by any layer) must be carried over verbatim."""
    from flow import resolve, resolve_rvalue, leaves, show
    fs = F.find("convert::builder::update_expanded_units")
    if len(fs) != 1:
        chk.fail("anchor-missing", "update_expanded_units", "", "anchor-missing: update_expanded_units not found")
        return
    f = fs[0]
    writes = []
    for i, j, s in f.iter_stmts():
        if s["k"] == "assign" and ".aliases" in s["place"]["p"]:
            writes.append((i, s))
    if not writes:
        chk.fail("C16.D6-alias-carry-over", "update_expanded_units|aliases", f"{f.file}:{f.line}",
                 "update_expanded_units no longer restores the aliases of the regenerated unit: aliases declared for a generated unit are lost")
        return
    for i, s in writes:
        e = resolve_rvalue(f, s["rv"], 0, frozenset(), i)
        txt = show(e, -50)
        ok = txt.startswith("Clone>::clone(") and ".aliases" in txt and not any(x in txt for x in ("join_alias_vec", "mem::take", "Vec::new", "precedence"))
        chk.expect(ok, "C16.D6-alias-carry-over", "update_expanded_units|aliases", f"{f.file}:{s.get('line')}",
                   f"the regenerated unit's aliases must be a verbatim copy of the aliases it had; they are {txt[:100]}",
                   sample=f"{f.file}:{s.get('line')}: aliases ← previous aliases (clone)")
    for b, t in f.calls():
        if (callee_key(t) or "").endswith("join_alias_vec"):
            chk.fail("C16.D6-alias-carry-over", "update_expanded_units|join", f.where(b),
                     "update_expanded_units re-joins aliases with a precedence: an `override` extend of the parent unit would drop the aliases of its generated units")


def d7_reindex_order(chk, F):
    """apply_extend_groups re-indexes an edited unit: its OLD keys must leave the index before names / symbols /
    aliases change (remove_unit_rec dominates every edit, and no edit can be followed by it in the same iteration),
    and the unit is added back afterwards."""
    fs = F.find("convert::builder::apply_extend_groups")
    if len(fs) != 1:
        chk.fail("anchor-missing", "apply_extend_groups", "", "anchor-missing: apply_extend_groups not found")
        return
    f = fs[0]
    rem = [b for b, t in f.calls() if (callee_key(t) or "").endswith("UnitIndex>::remove_unit_rec")]
    from cfgq import calls_reaching
    edits = calls_reaching(F, f, "builder::join_alias_vec", stop=("UnitIndex>::remove_unit_rec", "UnitIndex>::add_unit", "builder::update_expanded_units"))
    adds = [b for b, t in f.calls() if (callee_key(t) or "").endswith("UnitIndex>::add_unit")]
    heads = [b for b, t in f.calls() if (callee_key(t) or "").endswith("Iterator>::next") or (callee_key(t) or "").endswith("Iterator::next")]
    if len(rem) != 1 or not edits or not adds:
        chk.fail("C16.D7-reindex-order", "apply_extend_groups|shape", f"{f.file}:{f.line}",
                 f"apply_extend_groups must remove the unit from the index once, edit it, and add it back (remove {len(rem)}, edits {len(edits)}, add {len(adds)})")
        return
    r = rem[0]
    ok_before = all(f.node_dominates(r, e) for e in edits)
    ok_not_after = all(r not in f.reach_from(e, removed_nodes=heads) for e in edits)
    ok_add = all(any(a in f.reach_from(e, removed_nodes=heads) for a in adds) for e in edits)
    chk.expect(ok_before and ok_not_after, "C16.D7-reindex-order", "apply_extend_groups|remove before edit", f.where(r),
               "the unit's index entries are removed after (or not before) its names/symbols/aliases are edited: the old keys stay in the index and "
               "the new keys are removed instead, so key collisions are accepted and stale keys keep resolving",
               sample=f"{f.where(r)}: remove_unit_rec dominates every join_alias_vec and cannot follow one within an iteration")
    chk.expect(ok_add, "C16.D7-reindex-order", "apply_extend_groups|re-add after edit", f.where(adds[0]),
               "an edited unit is not added back to the index after the edit", sample=f"{f.where(adds[0])}: add_unit reachable after every edit")


def d13_every_prefix_registered(chk, F):
    """The table of generated units of an `expand_si` unit (`expanded_units`) has one slot per SI prefix and is what update_expanded_units
    and the extend layers use to find them again: in ConverterBuilder::finish every generated unit is registered with add_unit — every
    cycle of the innermost loop that calls add_unit passes through that call (no `continue` that leaves a slot at its default id 0, which
    is the first declared unit)."""
    from c03 import acyclic_without
    fs = [g for g in F.find("ConverterBuilder::finish") if not g.is_closure()]
    if len(fs) != 1:
        chk.fail("anchor-missing", "ConverterBuilder::finish", "", "anchor-missing: ConverterBuilder::finish not found")
        return
    f = fs[0]
    adds = [b for b, t in f.calls() if (callee_key(t) or "").endswith("UnitIndex>::add_unit") or (callee_key(t) or "").endswith("ConverterBuilder::add_unit")]
    R = "C16.D13-every-prefix"
    chk.floor(R, "add_unit calls in finish", len(adds), 1, f"{f.file}:{f.line}")
    for b in adds:
        sccs = [set(x) for x in f.sccs() if b in x]
        if not sccs:
            continue
        # innermost loop around the call: the loop head is the closest dominating `next()` inside the SCC
        heads = [hb for hb, ht in f.calls() if (callee_key(ht) or "").endswith(("Iterator>::next", "Iterator::next")) and hb in sccs[0] and f.node_dominates(hb, b)]
        inner = [h for h in heads if all(f.node_dominates(o, h) for o in heads)]
        if not inner:
            continue
        h = inner[0]
        body = sorted(x for x in sccs[0] if f.node_dominates(h, x) and h in f.reach_from(x))
        ok, cyc = acyclic_without(f, body, {b})
        lines = sorted({f.blocks[x]["term"].get("line") for x in (cyc or []) if f.blocks[x]["term"].get("line")})
        chk.expect(ok, R, "finish|generated units", f.where(b),
                   f"an iteration over the generated SI units can go on without registering the unit (through lines {lines}): its slot in expanded_units keeps "
                   "the default id 0, and a later `extend` of the base unit rewrites the first declared unit instead",
                   sample=f"{f.where(b)}: every iteration of the loop reaches add_unit")


def d8_finish_order(chk, F):
    """ConverterBuilder::finish derives the best-unit lists (sorted by ratio, thresholds relative to the smallest unit), the
    fractions configuration and the per-quantity index from the unit table: each of those readers must come after
    apply_extend_groups, which is the last writer of ratios / names — otherwise they describe the pre-extend units."""
    from cfgq import calls_reaching
    fs = [g for g in F.find("ConverterBuilder::finish") if not g.is_closure()]
    if len(fs) != 1:
        chk.fail("anchor-missing", "ConverterBuilder::finish", "", "anchor-missing: ConverterBuilder::finish not found")
        return
    f = fs[0]
    ext = calls_reaching(F, f, "builder::apply_extend_groups")
    if len(ext) != 1:
        chk.fail("C16.D8-finish-order", "finish|apply_extend_groups", f"{f.file}:{f.line}",
                 f"finish must apply the extend groups exactly once (found {len(ext)} call sites)")
        return
    a = ext[0]
    readers = {"best-unit lists": "BestConversions>::new", "fractions configuration": "builder::build_fractions_config"}
    for what, sfx in readers.items():
        bs = calls_reaching(F, f, sfx, stop=("builder::apply_extend_groups",))
        chk.floor("C16.D8-finish-order", f"finish|{what}", len(bs), 1, f"{f.file}:{f.line}")
        for b in bs:
            chk.expect(f.node_dominates(a, b), "C16.D8-finish-order", f"finish|{what}", f.where(b),
                       f"the {what} are computed before (or without) apply_extend_groups: an `extend` layer that changes a ratio, name or alias "
                       "leaves them describing the old units (unsorted best list, stale thresholds, unresolved keys)",
                       sample=f"{f.where(b)}: {what} built after apply_extend_groups ({f.where(a)})")
    exp = calls_reaching(F, f, "builder::expand_si", stop=("builder::apply_extend_groups",))
    chk.floor("C16.D8-finish-order", "finish|SI expansion", len(exp), 1, f"{f.file}:{f.line}")
    for b in exp:
        chk.expect(b not in f.reach_from(a) and f.node_dominates(0, b), "C16.D8-finish-order", "finish|SI expansion first", f.where(b),
                   "units are SI-expanded after the extend groups were applied: extend entries cannot address or refresh the generated units",
                   sample=f"{f.where(b)}: SI expansion precedes apply_extend_groups")


def d12_layers_kept(chk, F):
    """Each layer's `extend` block is applied as its own group with its own precedence, in layer order: add_units_file only ever
    PUSHES the incoming block onto self.extend; it does not merge it into a stored block (HashMap::extend would let a later
    layer's entry replace an earlier layer's entry for the same key instead of joining their names)."""
    from flow import resolve, show
    fs = [g for g in F.find("ConverterBuilder::add_units_file") if not g.is_closure()]
    if len(fs) != 1:
        chk.fail("anchor-missing", "add_units_file", "", "anchor-missing: add_units_file not found")
        return
    f = fs[0]
    touched = []
    for g in F.region_funcs(f.key):
        for b, t in g.calls():
            a = t.get("args") or []
            if not a:
                continue
            r = show(resolve(g, a[0]), -50)
            if "self" in r and (".extend" in r) and "best" not in r:
                touched.append((g, b, (callee_key(t) or "").rsplit("::", 1)[-1], r))
    chk.floor("C16.D12-layers-kept", "uses of self.extend in add_units_file", len(touched), 1, f"{f.file}:{f.line}")
    for g, b, m, r in touched:
        chk.expect(m == "push", "C16.D12-layers-kept", f"add_units_file|self.extend.{m}", g.where(b),
                   f"add_units_file applies `{m}` to the stored extend blocks ({r[:50]}): a layer's block must be pushed as a group of its own, not merged into "
                   "an earlier one", sample=f"{g.where(b)}: self.extend.push(extend)")


def d11_every_part(chk, F):
    """A layer may bring any subset of {units, best} per quantity group: the `best` list of a group must be looked at in
    EVERY iteration of the group loop of add_units_file (a group without `units` can still override the best list), and the
    store into self.best_units is guarded by that look."""
    from flow import resolve, resolve_place, show
    fs = [g for g in F.find("ConverterBuilder::add_units_file") if not g.is_closure()]
    if len(fs) != 1:
        chk.fail("anchor-missing", "add_units_file", "", "anchor-missing: add_units_file not found")
        return
    f = fs[0]
    stores = [i for i, j, st in f.iter_stmts() if st["k"] == "assign" and any(p == ".best_units" for p in st["place"]["p"])]
    stores += [t.get("target", b) for b, t in f.calls() if any(p == ".best_units" for p in t["dest"]["p"])]
    # `self.best_units[q] = ..` goes through IndexMut: the write is `*index_mut(&mut self.best_units, q) = ..`
    for b, t in f.calls():
        if (callee_key(t) or "").endswith("IndexMut<K>>::index_mut") or "index_mut" in (callee_key(t) or ""):
            if ".best_units" in show(resolve(f, t["args"][0]), -50):
                stores.append(b)
    tests = []
    for i, j, st in f.iter_stmts():
        if st["k"] == "assign" and st["rv"]["k"] == "discr" and "BestUnits" in st["rv"].get("ty", "") and "Option" in st["rv"].get("ty", ""):
            if show(resolve_place(f, st["rv"]["place"]), -50).endswith(".best") and any(f.node_dominates(i, s_) for s_ in stores):
                tests.append(i)
    heads = [b for b, t in f.calls() if (callee_key(t) or "").endswith(("Iterator>::next", "Iterator::next")) and ".quantity" in show(resolve(f, t["args"][0]), -50)]
    if not stores or len(tests) != 1 or len(heads) != 1:
        chk.fail("C16.D11-every-part", "add_units_file|best", f"{f.file}:{f.line}",
                 f"anchor-missing: expected one guarded store of the group's best list inside the group loop (stores {len(stores)}, tests {len(tests)}, loop heads {len(heads)})")
        return
    h, B = heads[0], tests[0]
    back = any(h in f.reach_from(s_, removed_nodes={B}) for s_ in f.succ[h] if s_ != B)
    chk.expect(not back, "C16.D11-every-part", "add_units_file|best looked at in every group", f.where(B),
               "an iteration of the quantity-group loop can finish without looking at the group's `best` list (e.g. `continue` for a group without units): "
               "a later layer's best-unit override is dropped and a consistent file is rejected with EmptyBest",
               sample=f"{f.where(B)}: every iteration of the group loop tests group.best")


def _last_field(e):
    """last `.field` projection on the way to the root of a place expression"""
    while isinstance(e, tuple):
        if e[0] == "place":
            fl = [p for p in e[2] if p.startswith(".") and not p[1:].isdigit()]
            if fl:
                return fl[-1]
            e = e[1]
        elif e[0] in ("ref",):
            e = e[1]
        elif e[0] == "call" and e[2]:
            e = e[2][0]
        else:
            return None
    return None


def _param_index(e):
    """index (1-based MIR local) of the parameter an expression is rooted at, looking through refs / fields"""
    while isinstance(e, tuple):
        if e[0] == "param":
            return e[1]
        if e[0] in ("ref", "place"):
            e = e[1]
        else:
            return None
    return None


def _same_layer_at_callers(F, f, prec, data, roots, depth):
    from flow import resolve, show
    ip, idt = _param_index(prec), _param_index(data)
    if ip is None or idt is None or depth > 3:
        return False
    callers = [(g, t) for g, kind, b, t in F.callers_of(f.key) if kind == "call"]
    if not callers:
        return False
    for g, t in callers:
        if max(ip, idt) > len(t["args"]):
            return False
        p2, d2 = resolve(g, t["args"][ip - 1]), resolve(g, t["args"][idt - 1])
        rp, rd = roots(p2), roots(d2)
        ok = bool(rp) and "self" not in rp and rp <= rd and show(p2, -50).endswith(".precedence")
        if not ok and not (bool(rp) and "self" not in rp and _same_layer_at_callers(F, g, p2, d2, roots, depth + 1)):
            return False
    return True


def d10_precedence(chk, F):
    """Later layers extend, precede or override earlier ones as THEIR precedence says.
    (a) every join_prefixes / join_alias_vec call takes data and precedence from the same incoming layer (never the
        precedence stored in self) and joins a field into the field of the same name;
    (b) join_alias_vec: Before = src then target, After = target then src, Override = src only;
    (c) join_prefixes: Before returns the incoming map extended with the stored one, After the stored one extended with
        the incoming one, Override the incoming one."""
    from flow import resolve, leaves, show
    from cfgq import variant_arm_blocks
    sites = []
    for f in F.funcs.values():
        if f.crate != "cooklang":
            continue
        for b, t in f.calls():
            k = callee_key(t) or ""
            if k.endswith("builder::join_prefixes") or k.endswith("builder::join_alias_vec"):
                sites.append((f, b, t, k.rsplit("::", 1)[-1]))
    chk.floor("C16.D10-precedence", "join call sites", len(sites), 5)
    def roots(e):
        return {l[6:].split(".")[0].split("as ")[0] for l in leaves(e) if l.startswith(("param:", "upvar:"))}
    for f, b, t, name in sites:
        tgt, data, prec = (resolve(f, a) for a in t["args"][:3])
        rp, rd = roots(prec), roots(data)
        ok = bool(rp) and "self" not in rp and rp <= rd and show(prec, -50).endswith(".precedence")
        if not ok and bool(rp) and "self" not in rp:
            # data and precedence are separate parameters of a helper: decide at the helper's call sites
            ok = _same_layer_at_callers(F, f, prec, data, roots, 0)
        key = f"{f.key.rsplit('::', 1)[-1]}|{name}|{_last_field(tgt)}"
        chk.expect(ok, "C16.D10-precedence", key + "|source", f.where(b),
                   f"the precedence passed to {name} must be the incoming layer's own (same origin as the joined data {sorted(rd)}); it is {show(prec, -50)[:100]}",
                   sample=f"{f.where(b)}: precedence and data both from {sorted(rd)}")
        ft, fd = _last_field(tgt), _last_field(data)
        okf = ft is not None and fd == ft
        chk.expect(okf, "C16.D10-precedence", key + "|field", f.where(b),
                   f"{name} joins `{fd}` of the incoming layer into `{ft}`", sample=f"{f.where(b)}: {fd or 'entry value'} → {ft}")
    # (b) join_alias_vec
    g = next((x for x in F.find("convert::builder::join_alias_vec") if not x.is_closure()), None)
    if g is None:
        chk.fail("anchor-missing", "join_alias_vec", "", "anchor-missing: join_alias_vec not found")
    else:
        def arm_facts(v):
            arms = variant_arm_blocks(g, "units_file::Precedence", v)
            if len(arms) != 1:
                return None
            r = g.reach_from(arms[0][1])
            apps = []
            for x in sorted(r):
                tt = g.blocks[x]["term"]
                if tt["k"] == "call" and (callee_key(tt) or "").endswith(("Vec::<T, A>::append", "Vec::<T, A>::extend", "Extend<T>>::extend")):
                    apps.append(tuple(sorted(roots(resolve(g, a)))[0] if roots(resolve(g, a)) else "?" for a in tt["args"][:2]))
            sets = []
            for i, j, st in g.iter_stmts():
                if i in r and st["k"] == "assign" and st["place"]["p"] == ["*"] and g.local_name(st["place"]["l"]) == "target" and st["rv"]["k"] == "use":
                    sets.append(sorted(roots(resolve(g, st["rv"]["op"]))))
            return apps, sets
        want = {"Before": ([("src", "target")], [["src"]]), "After": ([("target", "src")], []), "Override": ([], [["src"]])}
        for v, w in want.items():
            got = arm_facts(v)
            chk.expect(got is not None and (got[0], got[1]) == w, "C16.D10-precedence", f"join_alias_vec|{v}", f"{g.file}:{g.line}",
                       f"join_alias_vec under Precedence::{v} must do appends {w[0]} and target assignments {w[1]}; it does {got}",
                       sample=f"{g.file}:{g.line}: {v}: append {w[0]}, *target = {w[1]}")
    # (c) join_prefixes
    g = next((x for x in F.find("convert::builder::join_prefixes") if not x.is_closure()), None)
    if g is None:
        chk.fail("anchor-missing", "join_prefixes", "", "anchor-missing: join_prefixes not found")
        return
    want = {"Before": "b", "After": "a", "Override": "b"}
    for v, w in want.items():
        arms = variant_arm_blocks(g, "units_file::Precedence", v)
        got = None
        if len(arms) == 1:
            r = g.reach_from(arms[0][1])
            for i, j, st in g.iter_stmts():
                if i in r and st["k"] == "assign" and st["place"]["l"] == 0 and st["rv"].get("k") == "agg" and st["rv"].get("variant") == "Some":
                    # first Some built in the arm
                    got = sorted(roots(resolve(g, st["rv"]["ops"][0])))
                    break
            fe = [x for x in sorted(r) if g.blocks[x]["term"]["k"] == "call" and (callee_key(g.blocks[x]["term"]) or "").endswith("Iterator::for_each")]
            if v == "Override":
                okx = not fe
            else:
                other = "a" if w == "b" else "b"
                okx = len(fe) == 1 and sorted(roots(resolve(g, g.blocks[fe[0]]["term"]["args"][0]))) == [other] and \
                    sorted(roots(resolve(g, g.blocks[fe[0]]["term"]["args"][1]))) == [w]
        else:
            okx = False
        chk.expect(got == [w] and okx, "C16.D10-precedence", f"join_prefixes|{v}", f"{g.file}:{g.line}",
                   f"join_prefixes under Precedence::{v} must return the map derived from `{w}`" + ("" if v == "Override" else " after extending it with the other one")
                   + f"; it returns one derived from {got}", sample=f"{g.file}:{g.line}: {v} → {w}")


def recv_name(f, op):
    """Name of the variable / field path a `&mut map` receiver refers to."""
    from flow import resolve, show
    p = op.get("move") or op.get("copy")
    seen = 0
    while p is not None and seen < 6:
        seen += 1
        l = p["l"]
        fields = [x for x in p["p"] if x.startswith(".")]
        if f.local_name(l) and not (1 <= l <= f.argc and fields == [] and False):
            return f.local_name(l) + "".join(fields)
        ds = f.defs.get(l, [])
        if len(ds) == 1 and ds[0][0] == "stmt" and ds[0][3]["rv"]["k"] in ("ref", "use"):
            rv = ds[0][3]["rv"]
            p = rv.get("place") or rv["op"].get("move") or rv["op"].get("copy")
            continue
        break
    return show(resolve(f, op))


def result_used(f, t):
    """Is the destination of the call read by anything (other than being dropped)?"""
    d = t["dest"]
    if d["p"]:
        return True
    l = d["l"]
    for i, j, s in f.iter_stmts():
        if s["k"] != "assign":
            continue
        txt = json.dumps(s["rv"])
        if f'"l": {l},' in txt or f'"l": {l}}}' in txt:
            return True
    for i, tt in f.iter_terms():
        if tt is t:
            continue
        if tt["k"] == "drop":
            continue
        txt = json.dumps({k: v for k, v in tt.items() if k in ("args", "discr", "cond", "indirect")})
        if f'"l": {l},' in txt or f'"l": {l}}}' in txt:
            return True
    return False


SI_ORDER = ["kilo", "hecto", "deca", "deci", "centi", "milli"]


def d3_shipped(chk):
    try:
        uf = load_units()
    except Exception as e:
        chk.fail("anchor-missing", "units.toml", "units.toml", f"anchor-missing: cannot read units.toml: {e}")
        return
    si = uf.get("si", {})
    keyspace = defaultdict(list)   # key -> [unit label]
    by_symbol = {}
    units = []
    for q, sysname, u in iter_units(uf):
        label = (u.get("symbols") or u.get("names") or u.get("aliases") or ["?"])[0]
        rec = dict(q=q, system=sysname, label=label, keys=[])
        for k in u.get("names", []) + u.get("symbols", []) + u.get("aliases", []):
            rec["keys"].append(k)
        if not rec["keys"]:
            chk.fail("C16.D3-shipped", f"unit:{label}:nokey", "units.toml", f"unit in {q} without any name, symbol or alias (builder rejects: EmptyUnit)")
        if any(not k.strip() for k in rec["keys"]):
            chk.fail("C16.D3-shipped", f"unit:{label}:emptykey", "units.toml", f"unit {label} has an empty key (builder rejects: EmptyUnitKey)")
        if u.get("expand_si"):
            if "prefixes" not in si or "symbol_prefixes" not in si:
                chk.fail("C16.D3-shipped", f"unit:{label}:si", "units.toml", f"unit {label} expands SI prefixes but [si] tables are missing")
            else:
                for p in SI_ORDER:
                    ek = []
                    for pre in si["prefixes"].get(p, []):
                        ek += [pre + n for n in u.get("names", [])]
                    for pre in si["symbol_prefixes"].get(p, []):
                        ek += [pre + s for s in u.get("symbols", [])]
                    exp = dict(q=q, system=sysname, label=f"{p}:{label}", keys=ek)
                    units.append(exp)
        ratio = u.get("ratio")
        chk.expect(isinstance(ratio, (int, float)) and ratio > 0 and ratio == ratio and ratio != float("inf"), "C16.D3-shipped",
                   f"unit:{label}:ratio", "units.toml", f"unit {label} has a non-positive or non-finite ratio {ratio}", sample=f"{label}: ratio {ratio} > 0")
        units.append(rec)
    for rec in units:
        for k in rec["keys"]:
            keyspace[k].append(rec["label"])
    dups = {k: v for k, v in keyspace.items() if len(v) > 1}
    chk.expect(not dups, "C16.D3-shipped", "distinct keys", "units.toml",
               f"unit keys shared by two units (builder rejects: DuplicateUnit): {dict(list(dups.items())[:5])}",
               sample=f"{len(keyspace)} unit keys (incl. SI expansions), pairwise distinct")
    key_unit = {k: rec for rec in units for k in rec["keys"]}
    # best lists
    for g in uf.get("quantity", []):
        best = g.get("best")
        q = g["quantity"]
        if best is None:
            chk.fail("C16.D3-shipped", f"best:{q}:missing", "units.toml", f"quantity {q} has no best units (builder rejects: EmptyBest)")
            continue
        lists = [("any", best)] if isinstance(best, list) else [(s, best.get(s, [])) for s in ("metric", "imperial")]
        for sysname, lst in lists:
            if not lst:
                chk.fail("C16.D3-shipped", f"best:{q}:{sysname}:empty", "units.toml", f"best list of {q}/{sysname} is empty")
            for name in lst:
                rec = key_unit.get(name)
                ok = rec is not None and rec["q"] == q and (sysname == "any" or rec["system"] in (sysname, None))
                chk.expect(ok, "C16.D3-shipped", f"best:{q}:{sysname}:{name}", "units.toml",
                           f"best list of {q}/{sysname} names `{name}`, which is " +
                           ("not a unit key" if rec is None else f"a {rec['q']} unit of system {rec['system']}"),
                           sample=f"best {q}/{sysname}: {name} ok")
    fr = uf.get("fractions", {})
    for name in (fr.get("unit") or {}):
        chk.expect(name in key_unit, "C16.D3-shipped", f"fractions.unit:{name}", "units.toml",
                   f"fractions.unit names `{name}`, which is not a unit key (builder rejects: UnknownUnit)", sample=f"fractions.unit {name} exists")
    known_q = {"volume", "mass", "length", "temperature", "time"}
    for name in (fr.get("quantity") or {}):
        chk.expect(name in known_q, "C16.D3-shipped", f"fractions.quantity:{name}", "units.toml", f"fractions.quantity names unknown quantity `{name}`",
                   sample=f"fractions.quantity {name} ok")
    for sect in ("prefixes", "symbol_prefixes"):
        if sect in si:
            missing = [p for p in SI_ORDER if p not in si[sect]]
            chk.expect(not missing, "C16.D3-shipped", f"si.{sect}", "units.toml", f"[si.{sect}] lacks {missing} (build.rs unwraps every prefix)",
                       sample=f"si.{sect}: all six prefixes present")


DYNAMIC = {("si", "prefixes"), ("si", "symbol_prefixes"), ("fractions", "unit"), ("fractions", "quantity"), ("extend", "units")}


def d4_build_keys(chk):
    spath, _ = harness.syn_facts()
    with open(spath) as fh:
        syn = json.load(fh)
    read = set(syn.get("build_rs_keys", []))
    if len(read) < 15:
        chk.fail("anchor-missing", "build.rs keys", "build.rs", f"anchor-missing: only {len(read)} string keys found in build.rs")
        return
    try:
        uf = load_units()
    except Exception:
        return
    used = set()

    def walk(node, path):
        if isinstance(node, dict):
            for k, v in node.items():
                if tuple(path) in DYNAMIC or (path and tuple(p for p in path if p != "*")[-2:] in DYNAMIC):
                    walk(v, path + ["*"])
                else:
                    used.add((k, "/".join(path + [k])))
                    walk(v, path + [k])
        elif isinstance(node, list):
            for x in node:
                walk(x, path)

    walk(uf, [])
    for k, p in sorted(used):
        chk.expect(k in read, "C16.D4-build-keys", f"key:{p}", "build.rs",
                   f"units.toml uses key `{p}` but build.rs never reads `{k}`: the entry is silently dropped from the bundled converter",
                   sample=f"{p} is read by build.rs")
