"""C14 — metadata-only parsing agrees with full parsing (weak claim).

Decided clause: both entry points build the same pull parser over the same input and
extensions, both reach the same entry parser (metadata_entry), every entry it returns is
emitted by the metadata-only scanner, both feed analysis::parse_events with the same
input/extensions/converter/options, and the metadata path's only post-processing is the
projection `|c| c.metadata`.
Not decided: that the two block scanners select the same lines — the core of C14."""
from __future__ import annotations

import harness
from facts import Facts, callee_key, norm
from flow import resolve, resolve_place, leaves, show, walk
from cfgq import calls_to, region_calls_to, arg_expr, arg_leaves, option_some_edges, must_pass


def kind_tests(f, variant):
    """[(edge, subject expression)] — CFG edges on which `subject` is known to be TokenKind::<variant>:
    true edges of `TokenKind == <variant>` and the arms of a discriminant switch."""
    from cfgq import call_result_edges, variant_arm_blocks
    out = []
    for b, t in f.calls():
        if not (callee_key(t) or "").endswith("lexer::TokenKind as std::cmp::PartialEq>::eq"):
            continue
        es = [resolve(f, a) for a in t["args"]]
        txt = [full(e) for e in es]
        for me, other in ((1, 0), (0, 1)):
            if txt[me].replace("&", "").replace("(", "").replace(")", "").replace("*", "") == "TokenKind::" + variant:
                for e_ in call_result_edges(f, b)[0]:
                    out.append((e_, es[other]))
    for b, tgt in variant_arm_blocks(f, "lexer::TokenKind", variant):
        # subject: what the discriminant was read from
        for i, j, st in f.iter_stmts():
            if st["k"] == "assign" and st["rv"]["k"] == "discr" and i == b:
                from cfgq import lifted_edges
                for e_ in lifted_edges(f, (b, tgt)):
                    out.append((e_, resolve_place(f, st["rv"]["place"]) if "place" in st["rv"] else ("unknown",)))
    return out


def d_continuation_fresh(chk, F):
    """A multi-line block ends at a blank line or right before a single-line block; the full parser re-decides this for EVERY line it
    appends: each test that can leave a line-pulling loop of next_block is computed inside that loop (a peek at the coming token, the
    line just pulled) — never from a value obtained before the loop, which would describe the first line only."""
    fs = [g for g in F.funcs.values() if g.key.endswith("::next_block") and "parser::PullParser" in g.key and not g.is_closure()]
    if len(fs) != 1:
        chk.fail("anchor-missing", "next_block", "", f"anchor-missing: PullParser::next_block found {len(fs)} times")
        return
    f = fs[0]
    R = "C14.D-continuation-fresh"
    n = 0
    for scc in f.sccs():
        scc = set(scc)
        if not any(b in scc for b, t in f.calls() if (callee_key(t) or "").endswith("::pull_line")):
            continue
        for b in sorted(scc):
            t = f.blocks[b]["term"]
            if t["k"] != "switch" or all(x in scc for x in f.succ[b]):
                continue
            n += 1
            e = resolve(f, t["discr"])
            inside = [x for x in walk(e) if x[0] == "call" and x[3] in scc]
            chk.expect(bool(inside), R, f"next_block|exit#{n}", f.where(b),
                       "a test that ends the line-pulling loop of next_block is computed from values obtained before the loop (" + full(e)[:80] + "): it is not "
                       "re-evaluated for the lines the loop appends, so a block can run past a following `>>` entry / section in the full parse only",
                       sample=f"{f.where(b)}: exit test evaluated inside the loop ({inside[0][1].rsplit('::', 1)[-1] if inside else ''})")
    chk.floor(R, "exit tests of line-pulling loops in next_block", n, 2, f"{f.file}:{f.line}")


def d_first_content_line(chk, F):
    """Whether a block is a single-line block (`>>` entry, `=` section) is a property of its first NON-EMPTY line: next_block
    skips blank / comment-only lines by pulling again, and the `is_single_line` it then reads must belong to the line pulled last —
    the value read merges every pull_line that can precede it (the initial one and the one in the skipping loop)."""
    fs = [g for g in F.funcs.values() if g.key.endswith("::next_block") and "parser::PullParser" in g.key and not g.is_closure()]
    if len(fs) != 1:
        chk.fail("anchor-missing", "next_block", "", f"anchor-missing: PullParser::next_block found {len(fs)} times")
        return
    f = fs[0]
    reads = []
    for i, j, st in f.iter_stmts():
        rv = st.get("rv", {})
        op = rv.get("op") if rv.get("k") == "use" else (rv.get("x") if rv.get("k") == "un" else None)
        p = (op or {}).get("copy") or (op or {}).get("move")
        if p and p["p"] and p["p"][-1] == ".is_single_line":
            reads.append((i, st, p))
    chk.floor("C14.D-first-content-line", "reads of LineInfo.is_single_line in next_block", len(reads), 1, f"{f.file}:{f.line}")
    skips = [b for b, t in f.calls() if (callee_key(t) or "").endswith("::pull_line") and any(b in scc for scc in f.sccs())]
    for i, st, p in reads:
        base = resolve_place(f, {"l": p["l"], "p": [x for x in p["p"][:-1]]})
        n = sum(1 for nn in walk(base) if nn[0] == "call" and nn[1].endswith("::pull_line"))
        # pull_line calls inside a loop from which this read is reachable = the blank-line skipping loop
        before = [b for b in skips if i in f.reach_from(b)]
        chk.expect(n >= 2 or not before, "C14.D-first-content-line", "next_block|is_single_line of the last pulled line", f"{f.file}:{st.get('line')}",
                   "next_block decides single-line vs multi-line from a line it pulled BEFORE skipping blank lines: a `>>` entry after a blank / comment-only line "
                   "would swallow the following step in the full parse only", sample=f"{f.file}:{st.get('line')}: is_single_line of φ(all preceding pull_line results)")


def d_accept(chk, F):
    """Without front matter (old_style_metadata = true) the metadata-only scanner reports EVERY `>>` entry; so the full parser's
    acceptance test of a `>>` line (the filter in parse_block) may answer `false` only where old_style_metadata is known to
    be false: each value it returns is the literal true, old_style_metadata itself, or lies under the false outcome of a
    test of old_style_metadata."""
    from cfgq import bool_edges
    def reads_osm(g):
        names = {(l.get("name") or "") for l in g.locals[1:g.argc + 1]} | {u.get("name", "") for u in g.upvars}
        return "old_style_metadata" in names
    # the predicate itself: a bool-returning function / closure of parse_block's region that looks at old_style_metadata
    cands = [g for g in F.region_funcs("cooklang::parser::parse_block")
             if g.locals and norm(g.locals[0].get("ty", "")) == "bool" and reads_osm(g)]
    if len(cands) != 1:
        chk.fail("anchor-missing", "parse_block acceptance test", "", f"anchor-missing: expected one bool-valued acceptance test in parse_block's region that reads old_style_metadata, found {len(cands)}")
        return
    g = cands[0]
    def is_osm(e):
        t = full(e)
        return "old_style_metadata" in t and "extension" not in t
    # false edges of every branch on old_style_metadata
    osm_false = []
    for b, t in g.iter_terms("switch"):
        if norm(t.get("dty", "")) == "bool" and is_osm(resolve(g, t["discr"])):
            zero = [x[1] for x in t["targets"] if x[0] == "0"]
            if zero:
                osm_false.append((b, zero[0]))
    rets = [(i, st) for i, j, st in g.iter_stmts() if st["k"] == "assign" and st["place"]["l"] == 0 and not st["place"]["p"]]
    rets += [(t.get("target", b), {"rv": None, "call": t, "line": t.get("line")}) for b, t in g.calls() if t["dest"]["l"] == 0 and not t["dest"]["p"]]
    chk.floor("C14.D-accept", "return values of the acceptance test", len(rets), 1, f"{g.file}:{g.line}")
    for i, st in rets:
        rv = st.get("rv")
        ok = False
        what = "a call result"
        if rv is not None and rv["k"] == "use":
            c = rv["op"].get("const")
            if c is not None and c.get("bits") == "1":
                ok, what = True, "true"
            elif c is not None:
                what = "false"
            else:
                e = resolve(g, rv["op"])
                what = full(e)[:60]
                ok = is_osm(e)
        elif rv is not None:
            what = full(resolve_rvalue_safe(g, rv, i))[:60]
        if not ok:
            ok = any(g.edge_dominates(e_, i) for e_ in osm_false)
        chk.expect(ok, "C14.D-accept", f"parse_block|returns {what[:30]}", f"{g.file}:{st.get('line')}",
                   f"the full parser's acceptance test of a `>>` line can answer `{what}` while old_style_metadata is true: the metadata-only parse keeps every "
                   "entry in that case, so the two parses disagree (e.g. a bracketed key with MODES off)",
                   sample=f"{g.file}:{st.get('line')}: returns {what[:40]}")


def resolve_rvalue_safe(g, rv, i):
    from flow import resolve_rvalue
    try:
        return resolve_rvalue(g, rv, 0, frozenset(), i)
    except Exception:
        return ("unknown",)


def d_line_start(chk, F, f):
    """Both scanners must agree on what 'a `>>` at the start of a line' is. The full scanner cuts lines at Newline
    TOKENS (pull_line) and tests the first token of each line (is_single_line_marker); the metadata-only scanner must
    leave its search loop only when the peeked token is MetadataStart and the previously consumed token was a Newline
    token (or nothing was consumed yet) — decided from the token stream alone, never from the input text."""
    phase2 = [b for b, t in calls_to(f, "Vec::<T, A>::push") + calls_to(f, "Extend<T>>::extend") + calls_to(f, "Vec::<T, A>::extend")
              if ".block" in full(arg_expr(f, t, 0))]
    if not phase2:
        chk.fail("anchor-missing", "next_metadata_block|push", f"{f.file}:{f.line}", "anchor-missing: next_metadata_block no longer collects tokens into self.block")
        return
    tgt = phase2[0]
    def peeked(e):
        ls = leaves(e)
        return any(l.endswith("Peekable::<I>::peek") for l in ls) and not any("input" in l for l in ls if l.startswith("param:"))
    meta = [(e_, sub) for e_, sub in kind_tests(f, "MetadataStart") if f.edge_dominates(e_, tgt)]
    ok_meta = any(peeked(sub) and ".kind" in full(sub) for _, sub in meta)
    chk.expect(ok_meta, "C14.D-line-start", "next_metadata_block|peeked token is `>>`", f"{f.file}:{f.line}",
               "the metadata-only scanner starts an entry without having tested that the peeked token is MetadataStart",
               sample=f"{f.file}:{f.line}: entry collection dominated by peek().kind == MetadataStart")
    nl = [(e_, sub) for e_, sub in kind_tests(f, "Newline") if f.edge_dominates(e_, tgt)]
    ok_nl = False
    why = "no dominating `== Newline` test on the previously consumed token"
    for _, sub in nl:
        ls = leaves(sub)
        calls = {l for l in ls if l.startswith("call:")}
        allowed = all(l.endswith(("Peekable::<I>::peek", "Try>::branch", "Iterator>::next", "Iterator::next")) for l in calls)
        has_init = "TokenKind::Newline" in full(sub)
        uses_input = any(l.startswith("param:self.input") or "input" in l for l in ls if l.startswith("param:"))
        if allowed and has_init and any(n[0] == "phi" for n in walk(sub)) and not uses_input:
            ok_nl = True
        else:
            why = f"the line-start test reads {full(sub)[:100]}"
    if not ok_nl:
        # the same state kept as a bool: `at_line_start` ∈ {true initially, (consumed kind == Newline)}, tested true before the entry
        from cfgq import bool_edges
        for bsw, tsw in f.iter_terms("switch"):
            dp = tsw["discr"].get("move") or tsw["discr"].get("copy")
            if dp is None or dp["p"] or norm(tsw.get("dty", "")) != "bool":
                continue
            te, _fe = bool_edges(f, dp["l"])
            if not any(f.edge_dominates(e_, tgt) for e_ in te):
                continue
            e = resolve(f, tsw["discr"])
            txt = full(e)
            ls = leaves(e)
            has_phi = any(n[0] == "phi" for n in walk(e))
            init_true = any(n[0] == "const" and isinstance(n[1], dict) and n[1].get("bits") == "1" and norm(n[1].get("ty", "")) == "bool" for n in walk(e))
            eq_nl = "TokenKind::Newline" in txt and any(l.endswith("lexer::TokenKind as std::cmp::PartialEq>::eq") for l in ls)
            tok_only = any(l.endswith("Peekable::<I>::peek") for l in ls) and not any("input" in l for l in ls if l.startswith("param:"))
            if has_phi and init_true and eq_nl and tok_only:
                ok_nl = True
                break
    chk.expect(ok_nl, "C14.D-line-start", "next_metadata_block|previous token is Newline", f"{f.file}:{f.line}",
               "the metadata-only scanner does not decide 'start of line' the way the full scanner does (previous TOKEN is a Newline token, initially true): "
               + why + " — an escaped line break or a `>>` inside a comment would be an entry for one scanner and text for the other",
               sample=f"{f.file}:{f.line}: entry collection dominated by last == Newline, last ∈ {{Newline, previously peeked kind}}")
    # sibling: pull_line cuts at Newline tokens
    pl = [g for g in F.funcs.values() if g.key.endswith("::pull_line") and not g.is_closure()]
    if len(pl) != 1:
        chk.fail("anchor-missing", "pull_line", "", "anchor-missing: PullParser::pull_line not found")
        return
    g = pl[0]
    cuts = [(e_, sub) for e_, sub in kind_tests(g, "Newline")]
    ok = any(".kind" in full(sub) and any(l.endswith(("Iterator>::next", "Iterator::next")) for l in leaves(sub)) for _, sub in cuts)
    chk.expect(ok, "C14.D-line-start", "pull_line|cuts at Newline token", f"{g.file}:{g.line}",
               "pull_line no longer ends a line at the Newline token: the two scanners disagree on line boundaries",
               sample=f"{g.file}:{g.line}: line ends at tok.kind == Newline")
    # ... and ONLY there: every way out of the token loop other than the end of the stream lies under a `== Newline` outcome,
    # and the decision never looks at the input text (the metadata-only scanner cannot follow a text-based rule)
    heads = [b for b, t in g.calls() if (callee_key(t) or "").endswith(("Iterator>::next", "Iterator::next"))]
    loops = [scc for scc in g.sccs() if any(h in scc for h in heads)]
    exits = []
    for scc in loops:
        for u in scc:
            for v in g.succ[u]:
                if v not in scc and v in g.live:
                    exits.append((u, v))
    nl_edges = [e_ for e_, sub in cuts]
    def natural(u, v):
        # the None arm of the iterator: the switch on the discriminant of next()'s result
        t = g.blocks[u]["term"]
        return t["k"] == "switch" and any(st["k"] == "assign" and st["rv"]["k"] == "discr" and "Option" in st["rv"].get("ty", "") for st in g.blocks[u]["stmts"])
    extra = [(u, v) for u, v in exits if not natural(u, v) and g.blocks[u]["term"]["k"] not in ("drop", "unwind") and not any(e_ == (u, v) or g.edge_dominates(e_, u) for e_ in nl_edges)
             and g.blocks[v]["term"]["k"] != "resume"]
    chk.expect(bool(loops) and not extra, "C14.D-line-start", "pull_line|no other line end", g.where(extra[0][0]) if extra else f"{g.file}:{g.line}",
               "pull_line can end a line somewhere other than at a Newline token: the full scanner and the metadata-only scanner (which only knows Newline tokens) "
               "would split the document differently", sample=f"{g.file}:{g.line}: {len(exits)} loop exits, all at end of stream or under tok.kind == Newline")
    reads_input = [st for i, j, st in g.iter_stmts() if st["k"] == "assign" and ".input" in json_places(st)]
    chk.expect(not reads_input, "C14.D-line-start", "pull_line|tokens only", f"{g.file}:{reads_input[0].get('line') if reads_input else g.line}",
               "pull_line reads self.input: line boundaries must be decided from tokens alone, as next_metadata_block does",
               sample=f"{g.file}:{g.line}: pull_line never touches self.input")


def json_places(st):
    import json as _j
    return _j.dumps(st)


def full(e):
    import flow
    return flow.show(e, -50)


def run(chk: harness.Check):
    paths, th = harness.mir_facts("Q")
    F = Facts(paths)
    chk.explanation = (
        "Lineage and must-pass rules on the MIR of CooklangParser::{parse_with_options, parse_metadata_with_options} and of the two block scanners: "
        "same PullParser::new(input, self.extensions); both scanners call parser::metadata::metadata_entry; in next_metadata_block every Some(entry) "
        "reaches BlockParser::event; parse_events receives (input, self.extensions, &self.converter, options) on both paths; the metadata result is the "
        "`metadata` field of the analysed recipe; every exit test of a line-pulling loop of next_block is computed inside that loop. This is a weak necessary condition: equality of the selected lines is a run-time property.")
    chk.trusted = ["rustc MIR, resolved callees"]
    chk.analysed = {"facts": th}
    fa = F.funcs.get("cooklang::CooklangParser::parse_with_options")
    fm = F.funcs.get("cooklang::CooklangParser::parse_metadata_with_options")
    if fa is None or fm is None:
        chk.fail("anchor-missing", "CooklangParser entry points", "", "anchor-missing: parse_with_options / parse_metadata_with_options not found")
        return
    for name, f in (("parse_with_options", fa), ("parse_metadata_with_options", fm)):
        pn = calls_to(f, "PullParser::new")
        ok = len(pn) == 1 and full(arg_expr(f, pn[0][1], 0)) in ("input", "&(*input)") and "self).extensions" in full(arg_expr(f, pn[0][1], 1))
        chk.expect(ok, "C14.D-same-parser", f"{name}|PullParser::new", f"{f.file}:{f.line}",
                   f"{name} must build PullParser::new(input, self.extensions); it builds it from {[full(arg_expr(f, t, i))[:40] for b, t in pn for i in range(2)]}",
                   sample=f"{name}: PullParser::new(input, self.extensions)")
        pe = calls_to(f, "analysis::event_consumer::parse_events")
        ok = len(pe) == 1
        if ok:
            t = pe[0][1]
            a = [full(arg_expr(f, t, i)) for i in range(5)]
            ok = "input" in a[1] and "self).extensions" in a[2] and "self).converter" in a[3] and "options" in a[4]
        chk.expect(ok, "C14.D-same-analysis", f"{name}|parse_events", f"{f.file}:{f.line}",
                   f"{name} must call parse_events(events, input, self.extensions, &self.converter, options)",
                   sample=f"{name}: parse_events(.., input, self.extensions, &self.converter, options)")
        # ... on EVERY path: an early return (a "nothing to find" fast path) answers from a different notion of where metadata can be
        if pe:
            K = {pe[0][0]}
            reach = f.reach_from(0, removed_nodes=K)
            bad = [r for r in f.returns() if r in reach]
            chk.expect(not bad, "C14.D-same-analysis", f"{name}|no bypass", f.where(bad[0]) if bad else f"{f.file}:{f.line}",
                       f"{name} can return without running the scanner and the analysis (early return): the two entry points then decide by different rules "
                       "whether a document has metadata", sample=f"{name}: every return passes parse_events")
    # events of the metadata path come from into_meta_iter of that parser
    pe = calls_to(fm, "analysis::event_consumer::parse_events")
    if pe:
        ev = full(arg_expr(fm, pe[0][1], 0))
        chk.expect("into_meta_iter" in ev and "::new(" in ev and "input" in ev and "extensions" in ev, "C14.D-same-parser", "metadata events", f"{fm.file}:{fm.line}",
                   f"the metadata-only analysis does not consume PullParser::into_meta_iter(): {ev[:100]}", sample="events = PullParser::new(..).into_meta_iter()")
    # projection is `.metadata`
    ret = resolve_place(fm, {"l": 0, "p": []})
    clos = [n[2] for n in walk(ret) if n[0] == "agg" and n[1] == "closure"]
    okp = False
    for c in clos:
        g = F.funcs.get(c)
        if g is None:
            continue
        r = full(resolve_place(g, {"l": 0, "p": []}))
        if r.endswith(".metadata") and r.count(".") == 1 and not list(g.calls()):
            okp = True  # a pure field move: nothing is filtered or rewritten on the way out
    chk.expect(okp and any(l.endswith("PassResult::<T>::map") for l in leaves(ret)), "C14.D-projection", "parse_metadata_with_options|map", f"{fm.file}:{fm.line}",
               "the metadata result must be exactly the `metadata` field of the analysed recipe (PassResult::map(|c| c.metadata))",
               sample="result.map(|c| c.metadata)")
    # both scanners use the same entry parser, and the metadata scanner emits every entry it parses
    users = {f.key for f in F.funcs.values() if f.crate == "cooklang" and not f.generated and calls_to(f, "parser::metadata::metadata_entry")}
    want = {"next_metadata_block", "parse_block"}
    got = {u.split("::{closure")[0].rsplit("::", 1)[-1] for u in users}
    chk.expect(want <= got, "C14.D-same-entry-parser", "metadata_entry users", "",
               f"metadata_entry must be the entry parser of both scanners; it is called from {sorted(got)}", sample=f"metadata_entry called from {sorted(got)}")
    nb = [f for f in F.funcs.values() if f.key.endswith("::next_metadata_block") and not f.is_closure()]
    if len(nb) != 1:
        chk.fail("anchor-missing", "next_metadata_block", "", "anchor-missing: next_metadata_block not found")
        return
    f = nb[0]
    me = calls_to(f, "parser::metadata::metadata_entry")
    evs = [b for b, t in calls_to(f, "BlockParser::event")]
    ok = len(me) == 1 and bool(evs)
    if ok:
        somes = [tgt for _, tgt in option_some_edges(f, me[0][1]["dest"]["l"])]
        ok = bool(somes) and must_pass(f, somes, evs, f.returns())
        # and what is emitted is that entry
        ok = ok and any("metadata_entry" in full(arg_expr(f, f.blocks[b]["term"], 1)) for b in evs)
    chk.expect(ok, "C14.D-entry-emitted", "next_metadata_block", f"{f.file}:{f.line}",
               "an entry parsed by metadata_entry in the metadata-only scanner can be dropped before it is emitted: the full parse would still see it",
               sample=f"{f.file}:{f.line}: every Some(entry) of metadata_entry is passed to bp.event")
    d_line_start(chk, F, f)
    d_accept(chk, F)
    d_first_content_line(chk, F)
    d_continuation_fresh(chk, F)
    # the metadata scanner handles front matter like the full one: the queued front matter event is popped first
    nm = [g for g in F.funcs.values() if g.key.endswith("::next_metadata") and not g.is_closure()]
    nx = [g for g in F.funcs.values() if g.key == "cooklang::<parser::PullParser<T> as std::iter::Iterator>::next"]
    for g in nm + nx:
        pf = calls_to(g, "VecDeque::<T, A>::pop_front")
        ok = len(pf) == 1 and ".queue" in full(arg_expr(g, pf[0][1], 0))
        chk.expect(ok, "C14.D-queue-first", g.key.rsplit("::", 1)[-1], f"{g.file}:{g.line}",
                   f"{g.key.rsplit('::', 1)[-1]} must serve the shared event queue (front matter, diagnostics) before scanning",
                   sample=f"{g.key.rsplit('::', 1)[-1]}: queue.pop_front() first")

    # front matter switches old-style metadata off in the analysis exactly as PullParser::new does in the parser
    pf = F.funcs.get("cooklang::analysis::event_consumer::RecipeCollector::process_frontmatter")
    if pf is None:
        chk.fail("anchor-missing", "process_frontmatter", "", "anchor-missing: process_frontmatter not found")
    else:
        offs = []
        ons = []
        for i, j, st in pf.iter_stmts():
            if st["k"] == "assign" and st["place"]["p"] and st["place"]["p"][-1] == ".old_style_metadata":
                c = st["rv"].get("op", {}).get("const", {}) if st["rv"]["k"] == "use" else {}
                (offs if c.get("bits") == "0" else ons).append(i)
        ok = bool(offs) and not ons and must_pass(pf, [0], offs, pf.returns())
        chk.expect(ok, "C14.D-frontmatter-mode", "process_frontmatter|old_style_metadata=false", f"{pf.file}:{pf.line}",
                   "processing a front matter must leave old_style_metadata = false on every path: the metadata-only scanner stops reading `>>` lines "
                   "once a front matter exists, so the full parse must not treat them as metadata either",
                   sample=f"{pf.file}:{pf.line}: every path through process_frontmatter sets old_style_metadata = false")
    pn = [g for g in F.funcs.values() if g.key.startswith("cooklang::parser::PullParser::") and g.key.endswith("::new") and not g.is_closure()]
    for g in pn:
        vals = set()
        for ff, i, st, d in __import__("cfgq").aggregates(F, g.key, "parser::PullParser"):
            e = resolve(ff, d["old_style_metadata"])
            q = resolve(ff, d["queue"])
            vals.add((full(e), "push" in full(q) or "events" in full(q) or ff.local_name((d["queue"].get("move") or d["queue"].get("copy") or {"l": -1})["l"]) == "events"))
        chk.expect(vals == {("0", True), ("1", False)} or {v[0] for v in vals} == {"0", "1"}, "C14.D-frontmatter-mode", "PullParser::new|old_style_metadata", f"{g.file}:{g.line}",
                   f"PullParser::new must disable old-style metadata exactly when a front matter was found; it builds {sorted(vals)}",
                   sample="PullParser::new: old_style_metadata = false with front matter, true without")
