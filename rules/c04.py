"""C04 — every reported source location is in bounds, on char boundaries, faithful.

Decided clauses:
  D1  offset provenance: every offset that reaches a Span / Text / TextFragment constructor is
      built only from boundary-preserving nodes (token and text spans, string lengths, search
      results, sums of those); any `± constant`, subtraction, multiplication, narrowing cast or
      foreign index is reported unless it is a reviewed entry of tables/span_arith.toml.
      Parameters, offset-holding struct fields and local helper functions move the obligation
      to every call site / write / return (fixed point);
  D2  fragment faithfulness: where a text fragment is created from a slice of the input, the
      slice's lower bound and the fragment's offset are the same value;
  D3  token tiling: TokenStream::next builds Span::new(consumed_before, consumed_after) with
      consumed_after = consumed_before + lexer token length.
Not decided: start <= end, in-bounds, event order, and that rendering succeeds (value facts; they
follow from D1–D3 under the assumption that the lexer's Cursor advances by whole chars)."""
from __future__ import annotations

import os
import re
import tomllib
from collections import defaultdict

import harness
from facts import Facts, callee_key, norm, region_of, operand_local
from flow import resolve, resolve_place, resolve_rvalue, leaves, show, walk
from cfgq import calls_to, aggregates, arg_expr
from c03 import strip_generics

SINKS = {
    "cooklang::span::Span::new": [0, 1],
    "cooklang::span::Span::pos": [0],
    "cooklang::text::Text::empty": [0],
    "cooklang::text::Text::from_str": [1],
    "cooklang::text::Text::append_str": [2],
    "cooklang::text::TextFragment::new": [1],
    "cooklang::text::TextFragment::soft_break": [1],
    "cooklang::located::Located::<T>::new": [1],
    "cooklang::<span::Span as std::convert::From<std::ops::Range<usize>>>::from": [0],
}
# calls whose result is a valid boundary (by induction on the same rule) or a boundary-preserving string fact
SOURCES = ("span::Span::start", "span::Span::end", "span::Span::new", "span::Span::pos", "span::Span::range", "text::Text::span", "located::Located::span",
           "text::TextFragment::start", "text::TextFragment::end", "text::TextFragment::span", "text::TextData::span", "QuantityValue::span", "parser::tokens_span",
           "BlockParser::current_offset", "BlockParser::base_offset", "BlockParser::span", "Item::span",
           "<impl str>::len", "String::len", "<impl str>::find", "<impl str>::rfind", "Iterator>::position", "Iterator::position",
           "error::Recover>::recover", "<span::Span as std::convert::From<located::Located<T>>>::from", "From<text::Text>>::from",
           "std::convert::From<std::ops::Range<usize>>>::from")
PASS = ("Option::unwrap_or", "Option::unwrap", "Option::map", "Option::copied", "Option::cloned", "Option::unwrap_or_else", "Option::unwrap_or_default", "Try>::branch",
        "Into<U>>::into", "Clone>::clone", "cmp::min", "cmp::max", "Ord::min", "Ord::max", "Option::and_then", "Option::flatten", "Option::then",
        "<impl bool>::then", "Option::or", "Option::or_else", "Deref>::deref", "Option::as_ref", "Iterator::map", "Iterator>::next", "Iterator::filter_map",
        "Iterator::flatten", "Option::ok_or", "Option::expect", "std::convert::From<T>>::from", "FromResidual",
        "[T]>::first", "[T]>::last", "[T]>::get", "Iterator::filter", "Iterator::enumerate", "Iterator>::find", "Option::filter",
        "Iterator::find_map", "<impl bool>::then_some", "Iterator::map_while", "Iterator::last", "Iterator::nth")
# calls that produce strings / iterators over them, not offsets: nothing to check at this node
IGNORE = ("<impl str>::split_inclusive", "<impl str>::split", "<impl str>::lines", "<impl str>::chars", "<impl str>::char_indices", "<impl str>::trim",
          "<impl str>::trim_end", "<impl str>::trim_start", "[T]>::iter", "IntoIterator>::into_iter", "Index<I> for str>::index", "Index<I> for [T]>::index",
          "[T]>::split_at", "[T]>::split_first", "Vec::<T, A>::as_slice", "Peekable", "<impl str>::split_once", "std::iter::from_fn")
OFFSET_FIELDS = {"consumed": ("TokenStream",), "offset": ("TextFragment", "TextData", "Text"), "yaml_offset": ("FrontMatterSplit",),
                 "cooklang_offset": ("FrontMatterSplit",), "len_remaining": ("Cursor",), "len": ("lexer::Token", "Token")}


def full(e):
    import flow
    return flow.show(e, -50)


def sfx(ck, names):
    k = strip_generics(ck)
    return any(k.endswith(n) or strip_generics(n) in k for n in names)


class Prov:
    def __init__(self, F):
        self.F = F
        self.atoms = []       # (func, where, op, detail, sink, via)
        self.todo = []        # obligations
        self.done = set()
        self.stats = defaultdict(int)

    def atom(self, f, where, op, detail, ctx):
        self.atoms.append((f, where, op, detail, ctx))

    def check(self, f, e, where, ctx, top=True):
        """walk an offset expression; record suspicious atoms; queue moved obligations"""
        t = e[0]
        self.stats["nodes"] += 1
        if t == "const":
            c = e[1]
            v = c.get("int", c.get("bits"))
            if v is None:
                return
            if v != "0":
                self.atom(f, where, "literal", v, ctx)
            return
        if t == "param":
            self.queue(("param", f.key, e[1]), ctx)
            return
        if t == "upvar":
            self.queue(("upvar", f.key, e[1]), ctx)
            return
        if t in ("cycle", "undef", "partial", "unknown", "icall"):
            return
        if t == "phi":
            for x in e[1]:
                self.check(f, x, where, ctx, top)
            return
        if t == "ref":
            self.check(f, e[1], where, ctx, top)
            return
        if t == "place":
            flds = [p for p in e[2] if p.startswith(".")]
            last = flds[-1][1:] if flds else None
            base = e[1]
            if last in OFFSET_FIELDS and last != "len":
                self.queue(("field", last), ctx)
                return
            if last == "len" and "advance_token" in full(base):
                self.queue(("field", last), ctx)
                return
            if last in ("start", "end") and base[0] in ("param", "upvar"):
                # Range<usize> value handed in
                self.check(f, base, where, ctx, top)
                return
            # tuple / struct navigation over a computed value: the computation is what matters
            self.check(f, base, where, ctx, top)
            return
        if t == "agg":
            for _, fx in e[4]:
                self.check(f, fx, where, ctx, top)
            return
        if t == "cast":
            a, b = e[3], e[4]
            widening = (a, b) in (("u32", "usize"), ("u16", "usize"), ("u8", "usize"), ("usize", "usize"), ("u32", "u64"), ("usize", "u64"))
            if not widening:
                self.atom(f, where, "cast", f"{a}->{b}", ctx)
            self.check(f, e[2], where, ctx, False)
            return
        if t == "bin":
            op = e[1].replace("WithOverflow", "")
            if op == "Add":
                for x in (e[2], e[3]):
                    if x[0] == "const":
                        self.atom(f, where, "Add", "lit:" + str(x[1].get("int", x[1].get("bits"))), ctx)
                    else:
                        self.check(f, x, where, ctx, False)
            else:
                self.atom(f, where, op, "", ctx)
            return
        if t == "un":
            self.atom(f, where, e[1], "", ctx)
            return
        if t == "call":
            ck = e[1]
            if sfx(ck, SOURCES):
                self.stats["sources"] += 1
                return
            if sfx(ck, IGNORE):
                for a in e[2]:
                    if a[0] == "agg" and a[1] == "closure":
                        self.queue(("fnret", a[2]), ctx)
                return
            if sfx(ck, PASS):
                args = e[2][1:] if strip_generics(ck).endswith(("bool>::then", "bool>::then_some")) else e[2]
                for a in args:
                    if a[0] == "agg" and a[1] == "closure":
                        self.queue(("fnret", a[2]), ctx)
                    elif a[0] == "const" and "fn" in a[1]:
                        self.queue(("fnret", norm(a[1]["fn"].get("rdef") or a[1]["fn"]["def"])), ctx)
                    else:
                        self.check(f, a, where, ctx, top)
                return
            if ck in self.F.funcs and not self.F.funcs[ck].generated:
                self.queue(("fnret", ck), ctx)
                return
            if re.search(r"(Fn|FnMut|FnOnce)::call(_mut|_once)?$", strip_generics(ck)) and e[2]:
                # calling a local closure: its return value
                for n in walk(e[2][0]):
                    if n[0] == "agg" and n[1] == "closure":
                        self.queue(("fnret", n[2]), ctx)
                return
            name = strip_generics(ck).rsplit("::", 1)[-1]
            if name in ("saturating_sub", "saturating_add", "wrapping_sub", "wrapping_add", "checked_sub", "checked_add", "abs_diff"):
                lit = [str(a[1].get("int", a[1].get("bits"))) for a in e[2] if a[0] == "const"]
                self.atom(f, where, name, ",".join(lit), ctx)
                for a in e[2]:
                    if a[0] != "const":
                        self.check(f, a, where, ctx, False)
                return
            self.atom(f, where, "foreign", strip_generics(ck).replace("cooklang::", ""), ctx)
            return

    def queue(self, ob, ctx):
        if ob not in self.done:
            self.done.add(ob)
            self.todo.append((ob, ctx))

    def run(self):
        F = self.F
        while self.todo:
            ob, ctx = self.todo.pop()
            kind = ob[0]
            self.stats["obligations:" + kind] += 1
            if kind == "param":
                _, fkey, idx = ob
                callee = F.funcs.get(fkey)
                if callee is None or callee.is_closure():
                    self.stats["closure-params-skipped"] += 1
                    continue
                n = 0
                for cf, ek, b, t in F.callers_of(fkey):
                    if ek not in ("call", "cha") or cf.generated or t.get("k") != "call":
                        continue
                    if idx - 1 < len(t.get("args", [])):
                        n += 1
                        self.check(cf, resolve(cf, t["args"][idx - 1]), cf.where(b), ctx + [f"{fkey.rsplit('::', 1)[-1]}#{idx}"])
                self.stats["param-call-sites"] += n
            elif kind == "upvar":
                _, fkey, name = ob
                g = F.funcs.get(fkey)
                parent = F.funcs.get(g.root) if g is not None and g.root else None
                if parent is None:
                    continue
                base = name.split(".")[0]
                # writes to the captured variable inside the closure itself (`offset += l.len()`)
                for i, j, st in g.iter_stmts():
                    if st["k"] == "assign" and st["place"]["l"] == 1 and any(p.startswith(".^") and base in p for p in st["place"]["p"]):
                        self.check(g, resolve_rvalue(g, st["rv"], 0, frozenset(), i), f"{g.file}:{st.get('line')}", ctx + [f"captured {name} (updated in the closure)"], top=True)
                # find the closest enclosing function (or closure) that defines a local with that name
                for cand in F.region_funcs(parent.key):
                    for l, ld in enumerate(cand.locals):
                        if ld.get("name") == base and not (cand.is_closure() and l == 1):
                            ty = cand.local_ty(l)
                            if ty in ("usize", "u32", "u64", "&usize", "&mut usize"):
                                self.check(cand, resolve_place(cand, {"l": l, "p": []}), f"{cand.file}:{cand.line}", ctx + [f"captured {name}"])
            elif kind == "field":
                _, name = ob
                n = 0
                for k, g in F.funcs.items():
                    if g.generated or g.crate != "cooklang":
                        continue
                    for i, j, s in g.iter_stmts():
                        owners = OFFSET_FIELDS.get(name, ())
                        if s["k"] == "assign" and s["place"]["p"] and s["place"]["p"][-1] == "." + name and \
                                any(o in g.local_ty(s["place"]["l"]) or o in (g.impl_self or "") for o in owners):
                            n += 1
                            self.check(g, resolve_rvalue(g, s["rv"], 0, frozenset(), i), f"{g.file}:{s.get('line')}", ctx + [f"field .{name}"], top=True)
                        rv = s.get("rv", {})
                        if rv.get("k") == "agg" and rv.get("agg") == "adt" and name in rv.get("fields", []) and \
                                any(norm(rv["adt"]).endswith(o) for o in owners):
                            n += 1
                            op = rv["ops"][rv["fields"].index(name)]
                            self.check(g, resolve(g, op), f"{g.file}:{s.get('line')}", ctx + [f"field .{name}"], top=True)
                self.stats["field-writes"] += n
            elif kind == "fnret":
                _, key = ob
                g = F.funcs.get(key)
                if g is None:
                    continue
                self.check(g, resolve_place(g, {"l": 0, "p": []}), f"{g.file}:{g.line}", ctx + [f"return of {key.rsplit('::', 2)[-1]}"])


def d4_origin(chk, F):
    """Offsets are offsets into the CALLER's string: PullParser::new hands the `input` parameter itself to the front-matter
    splitter and (directly, or as the remainder + its offset) to the tokenizer, stores it unchanged for slicing, and the public
    parse entry points pass their own `input` through unchanged. A trimmed / stripped / re-allocated copy shifts every span."""
    from cfgq import aggregates
    from flow import leaves, show
    fs = [f for f in F.funcs.values() if "parser::PullParser" in f.key and f.key.endswith("::new") and not f.is_closure() and f.crate == "cooklang"]
    if len(fs) != 1:
        chk.fail("anchor-missing", "PullParser::new", "", f"anchor-missing: PullParser::new found {len(fs)} times")
        return
    f = fs[0]
    def is_param(e, name="input"):
        while isinstance(e, tuple) and e[0] in ("ref", "place") and (e[0] == "ref" or all(p == "*" for p in e[2])):
            e = e[1]
        return isinstance(e, tuple) and e[0] == "param" and e[2] == name
    n = 0
    for b, t in f.calls():
        k = callee_key(t) or ""
        if k.endswith("frontmatter::parse_frontmatter"):
            n += 1
            chk.expect(is_param(resolve(f, t["args"][0])), "C04.D4-origin", "PullParser::new|parse_frontmatter(input)", f.where(b),
                       f"the front-matter splitter receives {show(resolve(f, t['args'][0]), -50)[:80]} instead of the caller's input: its offsets are relative to another string",
                       sample=f"{f.where(b)}: parse_frontmatter(input)")
        if k.endswith("TokenStream::new"):
            n += 1
            e = resolve(f, t["args"][0])
            txt = show(e, -50)
            direct = is_param(e)
            rest = txt.rstrip(")").endswith(".cooklang_text") and any(l.endswith("parse_frontmatter") for l in leaves(e))
            if rest:
                # the remainder must be re-based with its own offset
                offs = [bb for bb, tt in f.calls() if (callee_key(tt) or "").endswith("TokenStream::offset")
                        and show(resolve(f, tt["args"][1]), -50).rstrip(")").endswith(".cooklang_offset") and f.node_dominates(b, bb)]
                rest = bool(offs)
            chk.expect(direct or rest, "C04.D4-origin", "PullParser::new|TokenStream::new#" + ("direct" if direct else "remainder"), f.where(b),
                       f"the tokenizer is started on {txt[:80]}, which is neither the caller's input nor the front-matter remainder re-based by cooklang_offset",
                       sample=f"{f.where(b)}: tokens over " + ("input" if direct else "fm.cooklang_text + offset(fm.cooklang_offset)"))
    chk.floor("C04.D4-origin", "tokenizer / splitter starts in PullParser::new", n, 3, f"{f.file}:{f.line}")
    aggs = aggregates(F, f.key, "parser::PullParser")
    chk.floor("C04.D4-origin", "PullParser constructions", len(aggs), 1, f"{f.file}:{f.line}")
    for ff, i, st, d in aggs:
        chk.expect(is_param(resolve(ff, d["input"])), "C04.D4-origin", "PullParser::new|input field", f"{ff.file}:{st.get('line')}",
                   f"PullParser.input (the string spans are sliced from) is {show(resolve(ff, d['input']), -50)[:80]}, not the caller's input",
                   sample=f"{ff.file}:{st.get('line')}: PullParser {{ input, .. }}")
    callers = [(g, b, t) for g, kind, b, t in F.callers_of(f.key) if kind == "call" and g.crate == "cooklang" and not g.generated]
    chk.floor("C04.D4-origin", "library callers of PullParser::new", len(callers), 2)
    for g, b, t in callers:
        chk.expect(is_param(resolve(g, t["args"][0])), "C04.D4-origin", f"{g.key.rsplit('::', 1)[-1]}|PullParser::new(input)", g.where(b),
                   f"{g.key.rsplit('::', 1)[-1]} parses {show(resolve(g, t['args'][0]), -50)[:80]} instead of its own `input`: reported spans do not index the caller's string",
                   sample=f"{g.where(b)}: PullParser::new(input, ..)")


def run(chk: harness.Check):
    paths, th = harness.mir_facts("Q")
    F = Facts(paths)
    with open(os.path.join(harness.VERIF, "tables", "span_arith.toml"), "rb") as fh:
        tab = tomllib.load(fh)
    table = {(e["function"], e["op"], e["detail"]): e for e in tab.get("site", [])}
    chk.explanation = (
        "Backward slicing (flow-insensitive reaching definitions on MIR) of every offset argument of Span::new/pos, Span::from(Range), Located::new, "
        "Text::empty/from_str/append_str and TextFragment::new/soft_break in the library: the slice may contain only spans/texts/tokens' start and end, "
        "BlockParser offsets, string lengths and search results, sums of those, lossless widening casts and pass-through Option combinators. Parameters, "
        "offset-holding fields (TokenStream.consumed, TextFragment.offset, FrontMatterSplit.*_offset, lexer Token.len, Cursor.len_remaining) and local helper "
        "functions move the obligation to all call sites / writes / returns until a fixed point. Every other node (± literal, subtraction, saturating_sub, "
        "multiplication, narrowing cast, foreign call) is reported unless its key (function, operator, detail) is reviewed in tables/span_arith.toml. "
        "D4: PullParser::new and the public entry points pass the caller's `input` itself to the splitter, the tokenizer and the slicing field. D2 compares, per fragment construction, the slice's lower bound with the fragment offset; D3 checks the tiling formula of TokenStream::next. "
        "Necessary conditions: rules out the ±1-byte class, not wrong-but-valid spans.")
    chk.trusted = ["the lexer's Cursor advances by whole chars (token boundaries are char boundaries)", "tables/span_arith.toml", "std str search/len functions return char-boundary offsets of the searched string"]
    d4_origin(chk, F)
    P = Prov(F)
    n_sinks = 0
    for k, f in sorted(F.funcs.items()):
        if f.generated or f.crate != "cooklang":
            continue
        for b, t in f.calls():
            ck = callee_key(t)
            if ck in SINKS:
                for i in SINKS[ck]:
                    n_sinks += 1
                    sink = strip_generics(ck).split("::")[-2] + "::" + ck.split("::")[-1]
                    P.check(f, resolve(f, t["args"][i]), f.where(b), [sink])
    P.run()
    chk.floor("C04.D1-provenance", "constructor offset arguments", n_sinks, 70)
    seen = defaultdict(list)
    for f, where, op, detail, ctx in P.atoms:
        seen[(region_of(f.key), op, detail)].append((where, ctx))
    for (region, op, detail), sites in sorted(seen.items()):
        sites = list({w: (w, c) for w, c in sites}.values())   # one per source position (phi alternatives repeat)
        key = f"{region}|{op}|{detail}"
        e = table.get((region, op, detail))
        where = sites[0][0]
        via = " ← ".join(sites[0][1])
        if e is None:
            chk.fail("C04.D1-provenance", key, where,
                     f"an offset that reaches {sites[0][1][0]} is computed with `{op} {detail}` in {region} ({len(sites)} site(s), via {via}): "
                     "not a token/text boundary, string length or search result — it can fall inside a multi-byte character or outside the input")
        elif len(sites) > e["count"]:
            chk.fail("C04.D1-provenance", key, where, f"{len(sites)} uses of `{op} {detail}` in {region}, reviewed table has {e['count']}")
        elif e.get("finding"):
            chk.fail("C04.D1-provenance", key, where, f"reviewed as a defect: {e['reason']}")
        else:
            chk.ok("C04.D1-provenance", key, f"{where}: `{op} {detail}` reviewed — {e['reason']}")
            # the reviewed reason may rest on an invariant elsewhere in the code: re-verify it on every run
            for req in e.get("requires", []):
                import c03
                okr, why = c03.check_requirement(F, None, None, req)   # only `infn:` requirements are used here
                chk.expect(okr, "C04.D1-discharge", f"{key}|{req}", where,
                           f"the invariant that makes the reviewed `{op} {detail}` in {region} land on a char boundary no longer holds: {why} — reviewed reason: {e['reason']}",
                           sample=f"{where}: `{op} {detail}` relies on {req}")
    chk.ok("C04.D1-provenance", "all other offset slices", f"{n_sinks} constructor arguments, {P.stats['nodes']} slice nodes, {P.stats['sources']} boundary sources, "
           f"{sum(v for k, v in P.stats.items() if k.startswith('obligations:'))} moved obligations: only boundary-preserving nodes")
    chk.analysed = {"facts": th, "sink_arguments": n_sinks, **{k: v for k, v in P.stats.items()}}
    d2_faithful(chk, F)
    d3_tiling(chk, F)


def d2_faithful(chk, F):
    n = 0
    for k, f in sorted(F.funcs.items()):
        if f.generated or f.crate != "cooklang":
            continue
        for b, t in f.calls():
            ck = callee_key(t) or ""
            if ck.endswith("text::Text::append_str"):
                s_arg, off = arg_expr(f, t, 1), arg_expr(f, t, 2)
            elif ck.endswith("text::TextFragment::new") or ck.endswith("text::TextFragment::soft_break") or ck.endswith("text::Text::from_str"):
                s_arg, off = arg_expr(f, t, 0), arg_expr(f, t, 1)
            else:
                continue
            # a fragment's text is a piece of the INPUT, never a literal (a soft break is one or two bytes long in the source)
            lits = [n_[1].get("str") for n_ in walk(s_arg) if n_[0] == "const" and isinstance(n_[1], dict) and "str" in n_[1]]
            if lits and not ck.endswith("Text::from_str"):
                chk.fail("C04.D2-faithful", f"{region_of(k)}|{ck.rsplit('::', 1)[-1]}|literal", f.where(b),
                         f"a text fragment is built from the string literal {lits[0]!r} instead of the input slice at its span: its content would differ from the input (e.g. CRLF)")
                continue
            # find the slicing: Index::index(input, Range{start, ..}) or index(input, span.range())
            lower = None
            for nnode in walk(s_arg):
                if nnode[0] == "call" and nnode[1].endswith("::index") and len(nnode[2]) == 2:
                    r = nnode[2][1]
                    if r[0] == "agg" and r[2].endswith("ops::Range"):
                        lower = dict(r[4]).get("start")
                    elif r[0] == "call" and r[1].endswith("Span::range"):
                        sp = r[2][0]
                        lower = ("call", "cooklang::span::Span::start", (sp,), 0)
                    break
            if lower is None:
                if s_arg[0] in ("param",) or (s_arg[0] == "ref" and s_arg[1][0] == "param") or "param" in str(s_arg[:2]):
                    continue  # forwarding wrapper (Text::append_str -> TextFragment::new): checked at its callers
                if ck.endswith("Text::from_str"):
                    continue  # handled below (front matter)
                continue
            n += 1
            a, bb = full(lower), full(off)
            a = re.sub(r"^&|^\(\*|\)$", "", a)
            ok = _same(lower, off)
            chk.expect(ok, "C04.D2-faithful", f"{region_of(k)}|{ck.rsplit('::', 1)[-1]}", f.where(b),
                       f"a text fragment is created from the input slice starting at `{full(lower)[:70]}` but is given the offset `{full(off)[:70]}`: its content would not equal the input at its span",
                       sample=f"{f.where(b)}: slice lower bound and fragment offset are the same value ({full(off)[:50]})")
    chk.floor("C04.D2-faithful", "fragment constructions from input slices", n, 2)   # 5 on the pinned tree; 4 of them are repetitions inside BlockParser::text
    # front matter: yaml_text = &input[yaml_start..yaml_end], yaml_offset = yaml_start (same for the cooklang part)
    for ff, i, s, d in aggregates(F, "cooklang::parser::frontmatter::parse_frontmatter", "FrontMatterSplit"):
        for txt, off in (("yaml_text", "yaml_offset"), ("cooklang_text", "cooklang_offset")):
            te = resolve(ff, d[txt])
            lower = None
            for nnode in walk(te):
                if nnode[0] == "call" and nnode[1].endswith("::index") and len(nnode[2]) == 2:
                    r = nnode[2][1]
                    if r[0] == "agg" and r[4]:
                        lower = dict(r[4]).get("start")
            ok = lower is not None and _same(lower, resolve(ff, d[off]))
            chk.expect(ok, "C04.D2-faithful", f"parse_frontmatter|{txt}", f"{ff.file}:{s.get('line')}",
                       f"FrontMatterSplit.{off} is not the lower bound of the slice stored in {txt}", sample=f"{txt} = &input[{off}..]")


def _same(a, b):
    def core(e):
        while e[0] in ("ref",) or (e[0] == "place" and all(p == "*" for p in e[2])):
            e = e[1]
        return e
    return full(core(a)) == full(core(b))


def d3_tiling(chk, F):
    fs = [f for f in F.funcs.values() if f.key == "cooklang::<parser::token_stream::TokenStream as std::iter::Iterator>::next"]
    if len(fs) != 1:
        chk.fail("anchor-missing", "TokenStream::next", "", "anchor-missing: TokenStream::next not found")
        return
    f = fs[0]
    sp = calls_to(f, "span::Span::new")
    ws = [(i, j, s) for i, j, s in f.iter_stmts() if s["k"] == "assign" and s["place"]["p"] and s["place"]["p"][-1] == ".consumed"]
    ok = len(sp) == 1 and len(ws) == 1
    if ok:
        b, t = sp[0]
        wi, wj, wst = ws[0]
        upd = full(resolve_rvalue(f, wst["rv"], 0, frozenset(), wi))
        ok = "consumed" in upd and "Add" in upd and ".len" in upd and "advance_token" in upd

        def root_read(op):
            """(block, stmt index) of the statement that read self.consumed into the chain feeding `op`"""
            p = op.get("copy") or op.get("move")
            for _ in range(8):
                if p is None:
                    return None
                if p["p"]:
                    return None
                ds = f.defs.get(p["l"], [])
                if len(ds) != 1 or ds[0][0] != "stmt":
                    return None
                _, bi, bj, st = ds[0]
                rv = st["rv"]
                if rv["k"] != "use":
                    return None
                q = rv["op"].get("copy") or rv["op"].get("move")
                if q is not None and q["p"] and q["p"][-1] == ".consumed":
                    return (bi, bj)
                p = q
            return None
        r0, r1 = root_read(t["args"][0]), root_read(t["args"][1])
        before = r0 is not None and ((r0[0] == wi and r0[1] < wj) or (r0[0] != wi and f.node_dominates(r0[0], wi)))
        after = r1 is not None and ((r1[0] == wi and r1[1] > wj) or (r1[0] != wi and f.node_dominates(wi, r1[0])))
        ok = ok and before and after
    chk.expect(ok, "C04.D3-tiling", "TokenStream::next", f"{f.file}:{f.line}",
               "token spans must be Span::new(consumed_before, consumed_after) with consumed_after = consumed_before + the lexer token's length: tokens would not tile the input",
               sample=f"{f.file}:{f.line}: span = (consumed before, consumed after += t.len)")
    # lexer token length comes from the cursor position
    at = [g for g in F.funcs.values() if g.key.endswith("Cursor>::advance_token") or g.key.endswith("Cursor::advance_token")]
    if at:
        g = at[0]
        news = calls_to(g, "lexer::Token::new")
        ok = bool(news) and all(("pos_within_token" in full(arg_expr(g, t, 1))) or full(arg_expr(g, t, 1)) == "0" for b, t in news)
        chk.expect(ok, "C04.D3-tiling", "advance_token|len", f"{g.file}:{g.line}", "lexer tokens must take their length from Cursor::pos_within_token()",
                   sample="Token.len ← cursor.pos_within_token()")
