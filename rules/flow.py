"""Flow-insensitive backward slicing on MIR locals (Slice / Lineage of DESIGN.md §3).

`resolve(f, operand)` turns an operand into an expression DAG whose leaves are parameters,
captured variables, constants and call results.  MIR temporaries are single-assignment;
user variables with several definitions become ('phi', [...]) nodes (the union of all their
definitions: an over-approximation of reaching definitions, which is the safe direction for
"value may only come from X" rules)."""
from __future__ import annotations

from facts import Func, callee_key, norm, operand_place

MAX_DEPTH = 40


def resolve(f: Func, op, depth=0, seen=frozenset()):
    if "const" in op:
        return ("const", op["const"])
    p = operand_place(op)
    if p is None:
        return ("unknown", op)
    return resolve_place(f, p, depth, seen)


def resolve_place(f: Func, p, depth=0, seen=frozenset()):
    base = resolve_local(f, p["l"], depth, seen)
    proj = list(p["p"])
    if not proj:
        return base
    # closure captured variables: _1.^name / (*_1).^name
    if f.is_closure() and p["l"] == 1:
        for i, e in enumerate(proj):
            if e.startswith(".^"):
                rest = proj[i + 1:]
                node = ("upvar", upvar_name(e[2:]))
                return ("place", node, tuple(rest)) if rest else node
    # fold projections through aggregates / refs where possible
    return project(base, tuple(proj))


# closure key -> captured-field projections in capture order (filled by Facts); the closure aggregate lists its operands in the same order
CLOSURE_FIELDS: dict = {}


def upvar_name(raw: str) -> str:
    """rustc names captured places `_ref__self__content` (by-ref capture of self.content)."""
    if raw.startswith("_ref__"):
        raw = raw[6:]
    return raw.replace("__", ".")


def project(base, proj):
    """Apply a projection to an expression, simplifying ref/deref and aggregate field reads."""
    while proj:
        e = proj[0]
        if e == "*" and base[0] == "ref":
            base = base[1]
            proj = proj[1:]
            continue
        if e.startswith(".") and base[0] == "agg":
            name = e[1:]
            hit = None
            for fname, fx in base[4]:
                if fname == name:
                    hit = fx
            if hit is None and base[1] == "closure" and e.startswith(".^"):
                # a captured variable read through the closure value itself (closure body inlined into its parent)
                names = CLOSURE_FIELDS.get(base[2], [])
                if e in names and names.index(e) < len(base[4]):
                    hit = base[4][names.index(e)][1]
            if hit is not None:
                base = hit
                proj = proj[1:]
                continue
        if base[0] == "place":
            return ("place", base[1], tuple(base[2]) + tuple(proj))
        break
    if not proj:
        return base
    return ("place", base, tuple(proj))


def resolve_local(f: Func, l, depth=0, seen=frozenset()):
    if 1 <= l <= f.argc:
        return ("param", l, f.local_name(l))
    if l in seen or depth > MAX_DEPTH:
        return ("cycle", l, f.local_name(l))
    seen = seen | {l}
    ds = f.defs.get(l, [])
    partial = f.defs.get((l, "proj"), [])
    outs = []
    for d in ds:
        if d[0] == "stmt":
            outs.append(resolve_rvalue(f, d[3]["rv"], depth + 1, seen, d[1]))
        else:
            outs.append(resolve_call(f, d[2], depth + 1, seen, d[1]))
    if not outs:
        if partial:
            return ("partial", l, f.local_name(l))
        return ("undef", l, f.local_name(l))
    if len(outs) == 1 and not partial:
        return outs[0]
    return ("phi", tuple(outs), l, f.local_name(l))


def resolve_call(f, t, depth, seen, block):
    ck = callee_key(t)
    args = tuple(resolve(f, a, depth, seen) for a in t.get("args", []))
    if ck is None:
        return ("icall", resolve(f, t["indirect"], depth, seen) if "indirect" in t else None, args, block)
    return ("call", ck, args, block)


def resolve_rvalue(f, rv, depth, seen, block):
    k = rv["k"]
    if k == "use":
        return resolve(f, rv["op"], depth, seen)
    if k == "ref" or k == "rawptr":
        return ("ref", resolve_place(f, rv["place"], depth, seen))
    if k == "bin":
        return ("bin", rv["op"], resolve(f, rv["l"], depth, seen), resolve(f, rv["r"], depth, seen), norm(rv.get("lty", "")))
    if k == "un":
        return ("un", rv["op"], resolve(f, rv["x"], depth, seen))
    if k == "cast":
        return ("cast", rv["kind"], resolve(f, rv["op"], depth, seen), norm(rv["from"]), norm(rv["ty"]))
    if k == "discr":
        return ("discr", resolve_place(f, rv["place"], depth, seen))
    if k == "agg":
        kind = rv.get("agg")
        ops = [resolve(f, o, depth, seen) for o in rv["ops"]]
        if kind == "adt":
            return ("agg", "adt", norm(rv["adt"]), rv["variant"], tuple(zip(rv["fields"], ops)))
        if kind == "tuple":
            return ("agg", "tuple", "", "", tuple((str(i), o) for i, o in enumerate(ops)))
        if kind in ("closure", "coroutine", "coroutine_closure"):
            return ("agg", "closure", norm(rv["closure"]), "", tuple((str(i), o) for i, o in enumerate(ops)))
        return ("agg", kind, "", "", tuple((str(i), o) for i, o in enumerate(ops)))
    if k == "repeat":
        return ("repeat", resolve(f, rv["op"], depth, seen))
    if k == "tls":
        return ("tls", norm(rv["def"]))
    return ("unknown", rv)


def walk(e):
    """Pre-order walk over all nodes of an expression."""
    st = [e]
    while st:
        x = st.pop()
        if not isinstance(x, tuple) or not x:
            continue
        yield x
        tag = x[0]
        if tag == "place":
            st.append(x[1])
        elif tag == "call" or tag == "icall":
            if tag == "icall" and x[1] is not None:
                st.append(x[1])
            st.extend(x[2])
        elif tag == "bin":
            st.append(x[2])
            st.append(x[3])
        elif tag in ("un",):
            st.append(x[2])
        elif tag == "cast":
            st.append(x[2])
        elif tag in ("ref", "discr", "repeat"):
            st.append(x[1])
        elif tag == "agg":
            for _, fx in x[4]:
                st.append(fx)
        elif tag == "phi":
            st.extend(x[1])


def leaves(e, through_calls=True):
    """Leaf descriptors of an expression: strings usable as lineage elements."""
    out = set()
    st = [e]
    while st:
        x = st.pop()
        if not isinstance(x, tuple) or not x:
            continue
        tag = x[0]
        if tag == "const":
            c = x[1]
            if "fn" in c:
                out.add("fn:" + norm(c["fn"].get("rdef") or c["fn"]["def"]))
            elif "path" in c and "promoted" not in c:
                out.add("const:" + norm(c["path"]))
            elif "str" in c:
                out.add("str:" + c["str"])
            elif "int" in c:
                out.add("lit:" + c["int"])
            elif "f64" in c:
                out.add("lit:" + c["f64"])
            elif "bits" in c:
                out.add("lit:" + c["bits"])
            else:
                out.add("const:?")
        elif tag == "param":
            out.add(f"param:{x[2] or x[1]}")
        elif tag == "upvar":
            out.add(f"upvar:{x[1]}")
        elif tag == "place":
            base = x[1]
            path = "".join(p for p in x[2] if p != "*")
            if base[0] == "param":
                out.add(f"param:{base[2] or base[1]}{path}")
            elif base[0] == "upvar":
                out.add(f"upvar:{base[1]}{path}")
            else:
                st.append(base)
        elif tag == "call":
            out.add("call:" + x[1])
            if through_calls:
                st.extend(x[2])
        elif tag == "icall":
            out.add("icall")
            st.extend(x[2])
        elif tag == "bin":
            st.append(x[2]); st.append(x[3])
        elif tag == "un":
            st.append(x[2])
        elif tag == "cast":
            st.append(x[2])
        elif tag in ("ref", "discr", "repeat"):
            st.append(x[1])
        elif tag == "agg":
            for _, fx in x[4]:
                st.append(fx)
        elif tag == "phi":
            st.extend(x[1])
        elif tag in ("cycle", "undef", "partial"):
            pass
        else:
            out.add("?:" + tag)
    return out


def show(e, depth=0):
    """Compact rendering for reports."""
    if not isinstance(e, tuple) or not e:
        return str(e)
    if depth > 8:
        return "…"
    tag = e[0]
    d = depth + 1
    if tag == "const":
        c = e[1]
        for k in ("str", "int", "f64", "char"):
            if k in c:
                return repr(c[k]) if k in ("str", "char") else c[k]
        if "fn" in c:
            return "fn " + norm(c["fn"].get("rdef") or c["fn"]["def"]).split("::")[-1]
        if "enum_variant" in c:
            return "&" + norm(c.get("enum", "")).split("::")[-1] + "::" + c["enum_variant"]
        if "path" in c:
            return norm(c["path"]).replace("cooklang::", "")
        if "bits" in c:
            return c["bits"]
        return "const"
    if tag == "param":
        return str(e[2] or f"_{e[1]}")
    if tag == "upvar":
        return f"^{e[1]}"
    if tag == "place":
        s = show(e[1], d)
        for p in e[2]:
            s = f"(*{s})" if p == "*" else s + (p if p[0] in ".[" else f" {p}")
        return s
    if tag == "call":
        name = "::".join(e[1].split("::")[-2:])
        return f"{name}({', '.join(show(a, d) for a in e[2])})"
    if tag == "icall":
        return f"<indirect>({', '.join(show(a, d) for a in e[2])})"
    if tag == "bin":
        return f"({show(e[2], d)} {e[1]} {show(e[3], d)})"
    if tag == "un":
        return f"{e[1]}({show(e[2], d)})"
    if tag == "cast":
        return f"({show(e[2], d)} as {e[4]})"
    if tag == "ref":
        return "&" + show(e[1], d)
    if tag == "discr":
        return f"discr({show(e[1], d)})"
    if tag == "agg":
        if e[1] == "adt":
            nm = e[2].split("::")[-1] + ("::" + e[3] if e[3] and e[3] != e[2].split("::")[-1] else "")
            return f"{nm}{{{', '.join(f'{k}: {show(v, d)}' for k, v in e[4])}}}"
        return f"{e[1]}({', '.join(show(v, d) for _, v in e[4])})"
    if tag == "phi":
        return f"φ[{e[3] or e[2]}]({' | '.join(show(v, d) for v in e[1])})"
    if tag in ("cycle", "undef", "partial"):
        return f"{tag}:{e[2] or e[1]}"
    return tag


def deep_leaves(F, e, depth=2, _seen=None):
    """leaves(e) plus, for every crate-local function called in `e` and every closure value appearing in `e`, the leaves of
    what that function / closure returns (recursively, `depth` levels).  Lets a lineage rule see through a getter or through
    the closure handed to map / and_then.  Parameters of the callee are reported as they are named there."""
    out = set(leaves(e))
    if depth <= 0:
        return out
    _seen = _seen or set()
    keys = set()
    for n in walk(e):
        if n[0] == "call" and n[1] in F.funcs:
            keys.add(n[1])
        elif n[0] == "agg" and n[1] == "closure" and n[2] in F.funcs:
            keys.add(n[2])
    for k in keys - _seen:
        g = F.funcs[k]
        if g.generated or g.nblocks > 80:
            continue
        try:
            re_ = resolve_place(g, {"l": 0, "p": []})
        except Exception:
            continue
        out |= deep_leaves(F, re_, depth - 1, _seen | {k})
    return out
