"""Format-string queries: decode the template of a `format_args!` call from MIR (core::fmt::Arguments::new(template, args))
and pair every placeholder with the expression that is printed there.

Template encoding (library/core/src/fmt/mod.rs): literal piece = len byte (<0x80) + bytes, or 0x80 + u16 len + bytes;
placeholder = byte with the two top bits set, bit0 flags(u32) bit1 width(u16) bit2 precision(u16) bit3 arg_index(u16);
0 ends the template."""
from __future__ import annotations

from facts import Func, callee_key
from flow import resolve, walk


def decode_template(hexstr: str):
    b = bytes.fromhex(hexstr)
    i, out, nxt = 0, [], 0
    while i < len(b):
        n = b[i]
        i += 1
        if n == 0:
            break
        if n < 0x80:
            out.append(("lit", b[i:i + n].decode("utf-8", "replace")))
            i += n
        elif n == 0x80:
            ln = int.from_bytes(b[i:i + 2], "little")
            i += 2
            out.append(("lit", b[i:i + ln].decode("utf-8", "replace")))
            i += ln
        else:
            spec = {}
            if n & 1:
                spec["flags"] = int.from_bytes(b[i:i + 4], "little")
                i += 4
            if n & 2:
                spec["width"] = int.from_bytes(b[i:i + 2], "little")
                i += 2
            if n & 4:
                spec["precision"] = int.from_bytes(b[i:i + 2], "little")
                i += 2
            if n & 8:
                idx = int.from_bytes(b[i:i + 2], "little")
                i += 2
            else:
                idx = nxt
            nxt = idx + 1
            out.append(("arg", idx, spec))
    # merge adjacent literals
    merged = []
    for t in out:
        if t[0] == "lit" and merged and merged[-1][0] == "lit":
            merged[-1] = ("lit", merged[-1][1] + t[1])
        else:
            merged.append(t)
    return merged


def _const_nodes(e):
    for n in walk(e):
        if n[0] == "const" and isinstance(n[1], dict):
            yield n[1]


def format_sites(f: Func):
    """[{block, line, tokens, args}] for every format_args! in `f`; tokens = decoded template with each ("arg", i, spec)
    replaced by ("arg", expression printed, spec, formatter-trait)."""
    out = []
    for b, t in f.calls():
        k = callee_key(t) or ""
        if k.endswith("fmt::Arguments::from_str") or k.endswith("fmt::Arguments::from_str_nonconst"):
            cs = [c for c in _const_nodes(resolve(f, t["args"][0])) if "str" in c]
            out.append({"block": b, "line": t.get("line"), "tokens": [("lit", cs[0]["str"])] if cs else [("unknown",)], "args": []})
            continue
        if not k.endswith("fmt::Arguments::new"):
            continue
        tmpl = [c for c in _const_nodes(resolve(f, t["args"][0])) if "bytes_hex" in c]
        if not tmpl:
            out.append({"block": b, "line": t.get("line"), "tokens": [("unknown",)], "args": []})
            continue
        toks = decode_template(tmpl[0]["bytes_hex"])
        arr = resolve(f, t["args"][1])
        while arr[0] == "ref":
            arr = arr[1]
        args = []
        if arr[0] == "agg" and arr[1] == "array":
            for _, el in arr[4]:
                if el[0] == "call" and "fmt::rt::Argument::new_" in el[1]:
                    inner = el[2][0]
                    while inner[0] == "ref":
                        inner = inner[1]
                    args.append((inner, el[1].rsplit("new_", 1)[-1]))
                else:
                    args.append((el, "?"))
        full = []
        for tk in toks:
            if tk[0] == "arg":
                ex, tr = args[tk[1]] if tk[1] < len(args) else (("unknown",), "?")
                full.append(("arg", ex, tk[2], tr))
            else:
                full.append(tk)
        out.append({"block": b, "line": t.get("line"), "tokens": full, "args": args})
    return out


def render(tokens, namer):
    """Template with placeholders rendered through `namer(expr)`."""
    s = ""
    for tk in tokens:
        if tk[0] == "lit":
            s += tk[1]
        elif tk[0] == "arg":
            s += "{" + namer(tk[1]) + ("" if not tk[2] else ":" + ",".join(f"{k}={v}" for k, v in sorted(tk[2].items()))) + "}"
        else:
            s += "{?}"
    return s
