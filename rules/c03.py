"""C03 — no input makes a public entry point panic, overflow or hang.

Decided clauses (necessary conditions, not "it never fails"):
  D1  the set of explicit failure sites (panic!/assert!/unreachable!/todo!, unwrap/expect,
      unsafe operations) of the two library crates equals the reviewed inventory
      tables/panics.toml; todo!/unimplemented! are never acceptable;
  D2  every arithmetic operation on a narrow integer type, every usize subtraction, every
      narrowing integer cast and every sum/product over integers is a checked/saturating/
      wrapping call or a reviewed entry of tables/narrow_arith.toml;
  D3  every CFG loop is an iteration over a finite std iterator, or has a reviewed progress
      construct through which every cycle must pass (tables/progress.toml); the same for
      recursion cycles of the call graph.
"""
from __future__ import annotations

import os
import re
import tomllib
from collections import Counter, defaultdict

import harness
import inventory
from facts import Facts, callee_key, callee_def, norm, region_of, operand_local
from flow import resolve, leaves, show, walk
from typestr import type_names

CRATES = ("cooklang", "cooklang_bindings")


def load(name):
    with open(os.path.join(harness.VERIF, "tables", name), "rb") as fh:
        return tomllib.load(fh)


def restrict_regions(F, entries_suffixes):
    """Function regions reachable from the given entry functions (for C11/C13/C16 clauses)."""
    ents = []
    for s in entries_suffixes:
        ents += [f.key for f in F.find(s)]
    reach = F.reach(ents)
    return {region_of(k) for k in reach if k in F.funcs}, ents


# =================================================================================================
# D1
def d1_inventory(chk, F: Facts, pid="C03", only_regions=None):
    tab = load("panics.toml")
    table = {}
    for e in tab.get("site", []):
        table[(e["function"], e["kind"], e["detail"])] = e
    sites = [s for s in inventory.failure_sites(F, CRATES) if not is_box_deref_site(F, s)]
    groups = inventory.group(sites)
    rule = f"{pid}.D1-inventory"
    n_total = 0
    for (region, kind, detail), ss in sorted(groups.items()):
        if only_regions is not None and region not in only_regions:
            continue
        n_total += len(ss)
        key = f"{region}|{kind}|{detail}"
        where = ss[0]["where"]
        if kind == "todo":
            chk.fail(rule, key, where, f"{detail}!() in library code: the entry point panics whenever this is reached "
                     f"({len(ss)} site(s): {', '.join(s['where'] for s in ss)})")
            continue
        e = table.get((region, kind, detail))
        if e is None and kind in ("unreachable", "panic", "assert", "debug_assert", "assert_eq", "assert_ne", "debug_assert_eq", "debug_assert_ne"):
            # `detail` of a panic-family site is the outermost macro it is written in: the same reviewed `unreachable!()` taken out of
            # (or put into) a local macro_rules! keeps its review as long as the function has no more sites of that kind than reviewed
            cands = [v for (r_, k_, d_), v in table.items() if r_ == region and k_ == kind]
            total = sum(len(x) for (r_, k_, d_), x in groups.items() if r_ == region and k_ == kind)
            if cands and total <= sum(v["count"] for v in cands):
                e = dict(cands[0], count=max(len(ss), cands[0]["count"]))
        if e is None:
            chk.fail(rule, key, where,
                     f"unreviewed failure site: {kind} on `{detail}` in {region} ({len(ss)} site(s): {', '.join(s['where'] for s in ss)})",
                     {"sites": [s["where"] for s in ss], "exprs": [s.get("expr") for s in ss]})
            continue
        if len(ss) > e["count"]:
            chk.fail(rule, key, where,
                     f"{len(ss)} {kind} site(s) on `{detail}` in {region}, reviewed inventory has {e['count']}: a new one was added "
                     f"({', '.join(s['where'] for s in ss)})")
            continue
        if e.get("verdict") == "finding" or e.get("finding_for") == pid:
            chk.fail(rule, key, where, f"reviewed as a defect: {e['reason']}")
            continue
        chk.ok(rule, key, f"{where}: {kind} `{detail}` ×{len(ss)} — {e.get('verdict', 'discharged')}: {e['reason']}")
        for req in e.get("requires", []):
            for s_ in ss:
                ok, why = check_requirement(F, F.funcs[s_["func"]], s_["block"], req)
                chk.expect(ok, f"{pid}.D1-discharge", f"{key}|{req}", s_["where"],
                           f"the invariant that discharges this {kind} (`{detail}` in {region}) no longer holds: {why} — reviewed reason: {e['reason']}",
                           sample=f"{s_['where']}: {kind} `{detail}` discharged by {req}")
    return n_total, len(groups)


def check_requirement(F, f, block, req):
    """Machine-checkable discharge conditions of a reviewed failure site.
       guard:<callee>:<true|false>   site is edge-dominated by that outcome of a test `callee(..)` in the same function
       after:<callee>                site is dominated by a call to callee
       between:<A>:<B>:<C>           every path from a call to A to a call to C passes through a call to B
       infn:<function>|<requirement> the requirement holds in another function (cross-function invariants)
       adjacent:<A>|<B>              after every call to A the next call to a method of the same type is B (nothing runs in between)
       armpass:<E>::<V>|<callee>|<gate>  every path from the <V> arm to the next loop iteration calls callee (or the gate was off)
       operand:<Op>|<l>|<r>          the operands of the site's binary Op are results of the named callees (`#pos`: with a positive literal)
       argfrom:<n>|<callee,alts>     argument n of the site's call is (computed from) the result of one of the callees
       paired:<A>|<B>|<const>        every call to A is dominated by a call to B that carries the constant <const>
                                     and acts on the same parameter as A's receiver (A must occur)"""
    from cfgq import calls_to, call_result_edges, must_pass
    parts = req.split(":")
    kind = parts[0]
    if kind == "armpass":
        # armpass:<Enum>::<Variant>|<callee>|<gate callee>: in the loop that dispatches on the enum, every path from the entry of the
        # <Variant> arm to the next iteration (the loop's `next()` call) or to a return passes through a call to <callee>, or leaves
        # through the flag-NOT-set outcome of a <gate callee> test (the construct that <callee> consumes only exists under the gate)
        from cfgq import variant_arm_blocks
        spec, callee, gate = req[len("armpass:"):].split("|")
        enum, variant = spec.rsplit("::", 1)
        starts = [tgt for _, tgt in variant_arm_blocks(f, enum, variant)]
        if not starts:
            return False, f"anchor-missing: no `{spec}` arm in {f.key}"
        K = {b for b, _ in calls_to(f, callee)}
        if not K:
            return False, f"anchor-missing: no call to `{callee}` in {f.key}"
        gate_false = [e for b, _ in calls_to(f, gate) for e in call_result_edges(f, b)[1]]
        heads = {b for b, t in f.calls() if (callee_key(t) or "").endswith(("Iterator>::next", "Iterator::next"))} | set(f.returns())
        for s_ in starts:
            r = f.reach_from(s_, removed_edges=gate_false, removed_nodes=K)
            bad = sorted(x for x in r if x in heads and x != s_)
            if bad:
                return False, (f"after the `{variant}` arm (entered at {f.where(s_)}) the loop can go on to {f.where(bad[0])} without calling `{callee}` "
                               f"although the `{gate}` test did not fail")
        return True, ""
    if kind == "operand":
        # operand:<Op>|<l-root>|<r-root>: both operands of the site's binary <Op> are, at the root of their resolved expression, the result
        # of the named callee (`-` = anything). `cmp::max#pos` additionally wants a non-zero literal among max's arguments.
        op, lroot, rroot = req[len("operand:"):].split("|")
        hits = [s for s in f.blocks[block]["stmts"] if s["k"] == "assign" and s["rv"]["k"] == "bin" and s["rv"]["op"].startswith(op)]
        if not hits:
            return False, f"anchor-missing: no `{op}` at {f.where(block)}"
        for s in hits:
            for side, want in (("l", lroot), ("r", rroot)):
                if want == "-":
                    continue
                name, _, flag = want.partition("#")
                e = resolve(f, s["rv"][side])
                names = name.split(",")
                is_call = isinstance(e, tuple) and e and e[0] == "call" and any(_suffix(e[1], n_) for n_ in names)
                is_cast = isinstance(e, tuple) and e and e[0] == "cast" and f"cast:{e[3]}" in names      # `b as usize` for usize::from(b)
                if not (is_call or is_cast):
                    return False, f"the {'minuend' if side == 'l' else 'subtrahend'} of `{op}` is `{show(e)[:100]}`, not a result of {name}"
                if flag == "pos":
                    lits = [a for a in e[2] if isinstance(a, tuple) and a and a[0] == "const" and str(a[1].get("bits")) not in ("0", "None")]
                    if not lits:
                        return False, f"`{show(e)[:100]}` has no positive literal argument: the result may be 0"
        return True, ""
    if kind == "argfrom":
        n, alts = req[len("argfrom:"):].split("|", 1)
        t = f.blocks[block]["term"]
        if t["k"] != "call" or len(t.get("args", [])) <= int(n):
            return False, f"site at {f.where(block)} is not a call with argument {n}"
        e = resolve(f, t["args"][int(n)])
        cs = {x[1] for x in walk(e) if x[0] == "call"}
        if any(_suffix(c, a) for c in cs for a in alts.split(",")):
            return True, ""
        return False, f"argument {n} is `{show(e)[:120]}`, not a result of {alts}"
    if kind == "infn":
        fn, inner = req[len("infn:"):].split("|", 1)
        gs = [g for g in F.find(fn) if ("{closure" in fn) == g.is_closure()]
        if len(gs) != 1:
            return False, f"anchor-missing: function `{fn}` found {len(gs)} times"
        return check_requirement(F, gs[0], None, inner)
    if kind == "adjacent":
        a, b_ = req[len("adjacent:"):].split("|")
        owner = a.rsplit("::", 1)[0]          # e.g. BlockParser: only calls on the same object type count as "in between"
        A = calls_to(f, a)
        if not A:
            return False, f"anchor-missing: no call to `{a}` in {f.key}"
        for x, t in A:
            # walk forward from the call; the first call to a method of `owner` on every path must be b_
            seen, work = set(), [t.get("target")]
            while work:
                y = work.pop()
                if y is None or y in seen:
                    continue
                seen.add(y)
                ty = f.blocks[y]["term"]
                if ty["k"] == "call":
                    k = callee_key(ty) or callee_def(ty) or ""
                    if _suffix(k, b_):
                        continue
                    if (owner + "::") in k or ("<" + owner) in k or (owner + "<") in k:
                        return False, f"`{k.rsplit('::', 1)[-1]}` at {f.where(y)} runs between `{a}` and `{b_}`"
                if ty["k"] in ("return", "resume", "unreachable"):
                    continue
                work.extend(s_ for s_ in f.succ[y] if ty["k"] != "call" or s_ == ty.get("target"))
        return True, ""
    if kind == "paired":
        a, b_, cpath = req[len("paired:"):].split("|")
        A = calls_to(f, a)
        B = [(x, t) for alt in b_.split(",") for x, t in calls_to(f, alt)
             if any((arg.get("const") or {}).get("path", "").endswith(cpath) for arg in t.get("args", []))]
        if not A:
            return False, f"anchor-missing: no call to `{a}` in {f.key}"
        for x, t in A:
            recv = {l for l in leaves(resolve(f, t["args"][0])) if l.startswith("param:")}
            ok = False
            for y, tb in B:
                rb = {l for l in leaves(resolve(f, tb["args"][0])) if l.startswith("param:")}
                if not (recv and recv <= rb):
                    continue
                nxt = f.blocks[x]["term"].get("target")
                if f.node_dominates(y, x) or (nxt is not None and must_pass(f, [nxt], [y], list(f.returns()))):
                    ok = True
            if not ok:
                return False, f"`{a}` at {f.where(x)} is not accompanied on every path by `{b_}` with {cpath} on the same object"
        return True, ""
    if kind == "guard":
        callee, pol = ":".join(parts[1:-1]), parts[-1]
        cs = calls_to(f, callee)
        if not cs:
            return False, f"no test `{callee}` left in {f.key}"
        for b, t in cs:
            te, fe = call_result_edges(f, b)
            for e in (te if pol == "true" else fe):
                if f.edge_dominates(e, block):
                    return True, ""
        return False, f"the site is reachable without the `{callee}` == {pol} outcome"
    if kind == "after":
        callee = ":".join(parts[1:])
        cs = [x for alt in callee.split("|") for x in calls_to(f, alt)]        # `a|b`: either search establishes the fact
        if any(f.node_dominates(b, block) for b, t in cs):
            return True, ""
        return False, f"the site is not preceded by a call to `{callee}` on every path"
    if kind == "between":
        rest = ":".join(parts[1:]).split("|")
        a, b_, c = rest
        A = [x for x, _ in calls_to(f, a)]
        B = [x for x, _ in calls_to(f, b_)]
        C = [x for x, _ in calls_to(f, c)]
        if not A or not C:
            return False, f"anchor calls `{a}` / `{c}` not found"
        starts = [f.blocks[x]["term"].get("target") for x in A if f.blocks[x]["term"].get("target") is not None]
        if must_pass(f, starts, B, C):
            return True, ""
        return False, f"a path from `{a}` reaches `{c}` without `{b_}`"
    if kind == "gt0":
        var = parts[1]
        from cfgq import bool_edges
        for i, j, st in f.iter_stmts():
            rv = st.get("rv", {})
            if rv.get("k") != "bin" or rv["op"] not in ("Gt", "Ne", "Eq", "Ge", "Lt", "Le"):
                continue
            lp = rv["l"].get("copy") or rv["l"].get("move")
            c = rv["r"].get("const", {})
            if lp is None or lp["p"] or f.local_name(lp["l"]) != var and _src_name(f, lp["l"]) != var:
                continue
            if c.get("bits") not in ("0", "1"):
                continue
            te, fe = bool_edges(f, st["place"]["l"])
            pos = te if (rv["op"], c.get("bits")) in (("Gt", "0"), ("Ne", "0"), ("Ge", "1")) else (fe if (rv["op"], c.get("bits")) in (("Eq", "0"), ("Le", "0"), ("Lt", "1")) else [])
            if any(f.edge_dominates(e, block) for e in pos):
                return True, ""
        return False, f"the site is reachable without `{var} > 0` having been established"
    if kind == "counter":
        fld = "." + parts[1]
        from cfgq import bool_edges
        writes = [(i, st) for i, j, st in f.iter_stmts() if st["k"] == "assign" and st["place"]["p"] and st["place"]["p"][-1] == fld]
        if not writes:
            return False, "the counter is never written"
        # comparison `counter == LEN - 1`
        eqs = []
        for i, j, st in f.iter_stmts():
            rv = st.get("rv", {})
            if rv.get("k") == "bin" and rv["op"] == "Eq":
                lt, rt = show(resolve(f, rv["l"]), -50), show(resolve(f, rv["r"]), -50)
                if fld in lt and "Sub" in rt and "len" in rt.lower() or fld in rt and "Sub" in lt and "len" in lt.lower():
                    eqs.append(st["place"]["l"])
        for i, st in writes:
            from flow import resolve_rvalue
            e = resolve_rvalue(f, st["rv"], 0, frozenset(), i)
            txt = show(e, -50)
            if e[0] == "const" and e[1].get("bits") == "0":
                continue
            inc = "Add" in txt and fld in txt
            guarded = any(any(f.edge_dominates(ed, i) for ed in bool_edges(f, d)[1]) for d in eqs)
            if not (inc and guarded):
                return False, f"the counter is written with `{txt[:60]}` on a path where it was not known to be below the last index"
        return True, ""
    return False, f"unknown requirement {req}"


def _src_name(f, l):
    ds = f.defs.get(l, [])
    if len(ds) == 1 and ds[0][0] == "stmt" and ds[0][3]["rv"]["k"] == "use":
        p = ds[0][3]["rv"]["op"].get("copy") or ds[0][3]["rv"]["op"].get("move")
        if p is not None and not p["p"]:
            return f.local_name(p["l"])
    return None


def is_box_deref_site(F, s):
    if s["kind"] != "unsafe" or s["detail"] != "raw-deref":
        return False
    f = F.funcs[s["func"]]
    b = f.blocks[s["block"]]
    # any raw deref in that block whose pointer is not a transmute of Box's NonNull pointer?
    for st in b["stmts"]:
        if st["k"] != "assign" or st.get("macros"):
            continue
        for p in _places(st):
            if p["p"] and p["p"][0] == "*" and f.local_ty(p["l"]).startswith("*"):
                if not _is_box_ptr(f, p["l"]):
                    return False
    return True


def _places(st):
    out = [st["place"]]
    rv = st["rv"]
    if "place" in rv:
        out.append(rv["place"])
    for op in (rv.get("op"), rv.get("l"), rv.get("r"), rv.get("x")):
        if isinstance(op, dict):
            p = op.get("copy") or op.get("move")
            if p:
                out.append(p)
    return out


def _is_box_ptr(f, l):
    ds = f.defs.get(l, [])
    if len(ds) != 1 or ds[0][0] != "stmt":
        return False
    rv = ds[0][3]["rv"]
    return rv["k"] == "cast" and rv["kind"] == "Transmute" and "NonNull<" in rv["from"] and \
        (rv["op"].get("copy") or rv["op"].get("move") or {"p": []})["p"][-1:] == [".pointer"]


# =================================================================================================
# D4 index / slice sites
# std functions that panic on an out-of-range / non-char-boundary / zero argument: the same hazard as `v[i]` and `&s[a..b]`
# written as a method call (round 11, seed C03k: `s.split_at(2)` for `s.split_once('_')`)
PANICKY_STD = [(re.compile(p), n) for p, n in (
    (r"<impl str>::split_at(_mut)?$", "str::split_at"), (r"<impl \[T\]>::split_at(_mut)?$", "slice::split_at"),
    (r"Vec::<T, A>::(insert|remove|swap_remove|split_off|drain)$", "Vec::\\1"),
    (r"VecDeque::<T, A>::(insert|swap|split_off|drain|range|range_mut)$", "VecDeque::\\1"),
    (r"String::(insert|insert_str|remove|split_off|drain|replace_range|truncate)$", "String::\\1"),
    (r"<impl \[T\]>::(swap|copy_from_slice|clone_from_slice|chunks|chunks_mut|chunks_exact|chunks_exact_mut|rchunks|windows|rotate_left|rotate_right|copy_within|select_nth_unstable\w*|swap_with_slice)$", "slice::\\1"),
    (r"Iterator>::step_by$", "Iterator::step_by"), (r"RefCell::<T>::(borrow|borrow_mut)$", "RefCell::\\1"),
    (r"<impl char>::(from_digit|to_digit|is_digit)$", "char::\\1"), (r"<impl str>::repeat$", "str::repeat"),
    (r"<impl (u8|u16|u32|u64|usize|i8|i16|i32|i64|isize)>::(abs|pow|div_euclid|rem_euclid|ilog|ilog2|ilog10|next_power_of_two|isqrt)$", "int::\\2"),
)]


def panicky_std(ck):
    for rx, name in PANICKY_STD:
        m = rx.search(ck)
        if m:
            return m.expand(name)
    return None


def index_sites(F: Facts):
    for k in sorted(F.funcs):
        f = F.funcs[k]
        if f.crate not in CRATES or f.generated:
            continue
        if f.kind.startswith(("Const", "AssocConst", "Static", "AnonConst", "InlineConst")):
            continue
        region = region_of(k)
        for b, t in f.iter_terms("assert"):
            if t["akind"] == "bounds" and not any("vec" in m for m in t.get("macros", [])):
                yield dict(region=region, kind="bounds", where=f.where(b), func=k, block=b)
        for b, t in f.calls():
            ck = callee_key(t) or ""
            if ("ops::Index" in ck or "ops::IndexMut" in ck) and not t.get("macros"):
                a = t["callee"].get("rargs") or t["callee"].get("args") or []
                kind = "slice" if any("Range" in x for x in a) else "index"
                cont = "str" if "for str" in ck else ("map" if ("HashMap" in ck or "EnumMap" in ck or "enum_map" in ck or "BTreeMap" in ck or "Mapping" in ck) else "vec")
                if cont == "map":
                    continue
                yield dict(region=region, kind=f"{kind}:{cont}", where=f.where(b), func=k, block=b)
                continue
            ps = panicky_std(ck)
            if ps and not t.get("macros"):
                yield dict(region=region, kind=f"call:{ps}", where=f.where(b), func=k, block=b)


def d4_index(chk, F, pid="C03", only_regions=None):
    tab = load("index_sites.toml")
    table = {(e["function"], e["kind"]): e for e in tab.get("site", [])}
    groups = defaultdict(list)
    for s_ in index_sites(F):
        groups[(s_["region"], s_["kind"])].append(s_)
    rule = f"{pid}.D4-index"
    n = 0
    for (region, kind), ss in sorted(groups.items()):
        if only_regions is not None and region not in only_regions:
            continue
        n += len(ss)
        key = f"{region}|{kind}"
        e = table.get((region, kind))
        where = ss[0]["where"]
        if e is None and kind in ("bounds", "index:vec"):
            # `v[i]` on a Vec is an Index::index call, the same access on a borrowed slice is a bounds-checked place: a reviewed
            # access keeps its review when the container is passed as `&[T]` instead of `&Vec<T>` (and vice versa)
            alt = "index:vec" if kind == "bounds" else "bounds"
            ea = table.get((region, alt))
            if ea is not None and len(ss) + len(groups.get((region, alt), [])) <= ea["count"]:
                e = ea
        if e is None and kind in ("slice:vec", "slice:str"):
            # `a.split_at(i)` and `(&a[..i], &a[i..])` are the same cut: a reviewed split_at whose index is machine-checked to come
            # from a search on the container (argfrom) covers range slices of that function whose bounds come from the same search
            # (for token slices also `i + const`: position() < len, so i + 1 <= len; never for strings — char boundaries)
            sa = table.get((region, "call:slice::split_at" if kind == "slice:vec" else "call:str::split_at"))
            reqs = [r for r in (sa or {}).get("requires", []) if r.startswith("argfrom:")]
            if sa is not None and reqs and not groups.get((region, sa["kind"])) and len(ss) <= 2 * sa["count"]:
                alts = reqs[0].split("|", 1)[1].split(",")
                def bound_ok(x):
                    f_ = F.funcs[x["func"]]
                    t_ = f_.blocks[x["block"]]["term"]
                    if len(t_.get("args", [])) < 2:
                        return False
                    e_ = resolve(f_, t_["args"][1])
                    calls = [n[1] for n in walk(e_) if n[0] == "call"]
                    bins = [n for n in walk(e_) if n[0] == "bin"]
                    arith_ok = all(n[1].startswith("Add") and (n[2][0] == "const" or n[3][0] == "const") for n in bins) and (kind == "slice:vec" or not bins)
                    return arith_ok and any(_suffix(c, a) for c in calls for a in alts)
                if all(bound_ok(x) for x in ss):
                    e = dict(sa, count=len(ss), requires=[], reason=sa["reason"] + " (written as range slices with the same index)")
        if e is None and kind in ("call:slice::split_at", "call:str::split_at"):
            # the converse: reviewed range slices `a[..i]` / `a[i..]` with a machine-checked index rewritten as one `a.split_at(i)`
            sk = "slice:vec" if kind == "call:slice::split_at" else "slice:str"
            sl = table.get((region, sk))
            reqs = [r for r in (sl or {}).get("requires", []) if r.startswith("argfrom:")]
            if sl is not None and reqs and 2 * len(ss) + len(groups.get((region, sk), [])) <= sl["count"]:
                if all(check_requirement(F, F.funcs[x["func"]], x["block"], "argfrom:1|" + reqs[0].split("|", 1)[1])[0] for x in ss):
                    e = dict(sl, kind=kind, count=len(ss), requires=[], reason=sl["reason"] + " (written as split_at with the same index)")
        if e is None:
            chk.fail(rule, key, where, f"unreviewed {kind} indexing in {region} ({len(ss)} site(s): {', '.join(x['where'] for x in ss)}): "
                     "an out-of-range index or a non-boundary string slice panics")
            continue
        if len(ss) > e["count"] and kind.split(":")[0] in ("index", "slice"):
            # the reviewed thing is an access PATTERN (which container, indexed by what): writing the same `v[i]` once more in the
            # same function is not a new hazard — count distinct (container, index) lineages instead of sites
            def pattern(x):
                f_ = F.funcs[x["func"]]
                t_ = f_.blocks[x["block"]]["term"]
                if t_["k"] != "call" or len(t_.get("args", [])) < 2:
                    return ("site", x["where"])
                return (show(resolve(f_, t_["args"][0]), -60), show(resolve(f_, t_["args"][1]), -60))
            if len({pattern(x) for x in ss}) <= e["count"]:
                e = dict(e, count=len(ss))
        if len(ss) > e["count"]:
            chk.fail(rule, key, where, f"{len(ss)} {kind} site(s) in {region}, reviewed inventory has {e['count']} ({', '.join(x['where'] for x in ss)})")
            continue
        chk.ok(rule, key, f"{where}: {kind} ×{len(ss)} — {e['reason']}")
        for req in e.get("requires", []):
            hits = [check_requirement(F, F.funcs[x["func"]], x["block"], req) for x in ss]
            # a requirement names the guard of the site(s) it was written for: at least one site of the group must satisfy it,
            # and for single-site groups that site
            ok = all(h[0] for h in hits) if len(ss) == 1 else any(h[0] for h in hits)
            why = next((h[1] for h in hits if not h[0]), "")
            chk.expect(ok, f"{pid}.D4-discharge", f"{key}|{req}", where,
                       f"the invariant that keeps this {kind} access in range no longer holds ({req}): {why} — reviewed reason: {e['reason']}",
                       sample=f"{where}: {kind} in range by {req}")
    return n


# =================================================================================================
# D2
INT_W = {"u8": 8, "u16": 16, "u32": 32, "u64": 64, "u128": 128, "i8": 8, "i16": 16, "i32": 32, "i64": 64, "i128": 128,
         "usize": 64, "isize": 64}
ARITH = {"Add", "Sub", "Mul", "Shl", "Shr", "Div", "Rem"}
OPCALL = re.compile(r"<&?(mut )?(u8|u16|u32|u64|u128|i8|i16|i32|i64|i128|usize|isize) as std::ops::(Add|Sub|Mul|Div|Rem|Shl|Shr|Neg|AddAssign|SubAssign|MulAssign|DivAssign|RemAssign|ShlAssign|ShrAssign)(<[^>]*>)?>::\w+$")


def arith_sites(F: Facts):
    for k in sorted(F.funcs):
        f = F.funcs[k]
        if f.crate not in CRATES or f.generated:
            continue
        if f.kind.startswith(("Const", "AssocConst", "Static", "AnonConst", "InlineConst")):
            continue
        region = region_of(k)
        for i, j, s in f.iter_stmts():
            if s["k"] != "assign":
                continue
            macros = s.get("macros", [])
            if any(m.split(":", 1)[-1] in ("vec", "$crate::vec", "format_args", "matches") or "tracing::" in m for m in macros):
                continue
            rv = s["rv"]
            where = f"{f.file}:{s.get('line')}"
            if rv["k"] == "bin":
                op = rv["op"].replace("WithOverflow", "").replace("Unchecked", "")
                ty = norm(rv["lty"]).lstrip("&")
                if ty in INT_W and op in ARITH:
                    if "const" in rv["l"] and "const" in rv["r"]:
                        continue  # constant folding material (alignment masks of pointer checks)
                    if ty in ("usize", "isize") and op not in ("Sub", "Div", "Rem", "Shl", "Shr"):
                        continue  # usize offset/length additions: census only (DESIGN C03.N)
                    if op in ("Div", "Rem") and "const" in rv["r"]:
                        c = rv["r"]["const"]
                        if c.get("bits") not in (None, "0"):
                            continue
                    rhs = "const" if "const" in rv["r"] else "var"
                    yield dict(region=region, kind=f"{op}:{ty}", detail=rhs, where=where, func=k, block=i)
            elif rv["k"] == "cast" and rv["kind"].startswith("IntToInt"):
                a, b = norm(rv["from"]), norm(rv["ty"])
                if a in INT_W and b in INT_W:
                    narrowing = INT_W[b] < INT_W[a] or (a[0] != b[0] and INT_W[b] <= INT_W[a] and not (a[0] == "u" and INT_W[b] > INT_W[a]))
                    if narrowing:
                        yield dict(region=region, kind="cast", detail=f"{a}->{b}", where=where, func=k, block=i)
            elif rv["k"] == "un" and rv["op"] == "Neg" and norm(rv.get("xty", "")) in INT_W:
                yield dict(region=region, kind=f"Neg:{norm(rv['xty'])}", detail="", where=where, func=k, block=i)
        for i, t in f.calls():
            ck = callee_key(t)
            if not ck:
                continue
            macros = t.get("macros", [])
            if any("tracing::" in m for m in macros):
                continue
            where = f"{f.file}:{t.get('line')}"
            m = OPCALL.search(ck)
            if m:
                yield dict(region=region, kind=f"{m.group(3)}:{m.group(2)}", detail="opcall", where=where, func=k, block=i)
                continue
            if re.search(r"Iterator::(sum|product)$", ck):
                args = t["callee"].get("rargs") or t["callee"].get("args") or []
                out_ty = norm(args[-1]) if args else "?"
                if out_ty in INT_W:
                    yield dict(region=region, kind=f"{ck.rsplit('::', 1)[-1]}:{out_ty}", detail="iterator", where=where, func=k, block=i)


def d2_arith(chk, F, pid="C03", only_regions=None):
    tab = load("narrow_arith.toml")
    table = {(e["function"], e["kind"], e["detail"]): e for e in tab.get("site", [])}
    groups = defaultdict(list)
    for s in arith_sites(F):
        groups[(s["region"], s["kind"], s["detail"])].append(s)
    rule = f"{pid}.D2-arith"
    n = 0
    for (region, kind, detail), ss in sorted(groups.items()):
        if only_regions is not None and region not in only_regions:
            continue
        n += len(ss)
        key = f"{region}|{kind}|{detail}"
        where = ss[0]["where"]
        e = table.get((region, kind, detail))
        if e is None:
            chk.fail(rule, key, where,
                     f"unreviewed integer arithmetic that can overflow/wrap: {kind} ({detail}) in {region} "
                     f"({len(ss)} site(s): {', '.join(s['where'] for s in ss)}) — use checked_/saturating_ or review it",
                     {"sites": [s["where"] for s in ss]})
        elif len(ss) > e["count"]:
            chk.fail(rule, key, where, f"{len(ss)} `{kind}` site(s) in {region}, reviewed table has {e['count']} "
                     f"({', '.join(s['where'] for s in ss)})")
        elif e.get("verdict") == "finding":
            chk.fail(rule, key, where, f"reviewed as a defect: {e['reason']}")
        else:
            chk.ok(rule, key, f"{where}: {kind} {detail} ×{len(ss)} — {e['reason']}")
            for req in e.get("requires", []):
                for s_ in ss:
                    okr, why = check_requirement(F, F.funcs[s_["func"]], s_["block"], req)
                    chk.expect(okr, f"{pid}.D2-discharge", f"{key}|{req}", s_["where"],
                               f"the guard that keeps `{kind}` from overflowing no longer holds ({req}): {why} — reviewed reason: {e['reason']}",
                               sample=f"{s_['where']}: {kind} guarded by {req}")
    return n


# =================================================================================================
# D3
FINITE_PREFIX = (
    "std::slice::", "core::slice::", "std::vec::", "alloc::vec::", "std::str::", "core::str::", "std::ops::Range", "std::ops::RangeInclusive",
    "std::collections::", "std::option::", "std::result::", "std::array::", "core::array::", "enum_map::", "serde_yaml::mapping::",
    "serde_yaml::Mapping", "smallvec::", "bitflags::iter::", "std::char::", "core::char::", "tracing::field::", "std::string::",
    "std::path::", "std::sync::Arc", "std::boxed::Box", "std::borrow::Cow", "std::alloc::", "std::iter::", "core::iter::", "indexmap::",
    "serde_yaml::", "std::marker::", "std::mem::", "std::cell::", "std::rc::", "std::num::", "std::fmt::", "unicase::", "std::ffi::",
)
INFINITE = {"std::iter::Repeat", "std::iter::RepeatWith", "std::iter::Cycle", "std::iter::FromFn", "std::iter::Successors",
            "std::ops::RangeFrom", "std::iter::RepeatN", "core::iter::Repeat", "core::iter::Cycle", "core::iter::FromFn"}
PRIMS = {"u8", "u16", "u32", "u64", "u128", "i8", "i16", "i32", "i64", "i128", "usize", "isize", "f32", "f64", "bool", "char", "str"}


def iterator_class(F: Facts, ty: str, local_iter_types):
    """'finite' | 'generic' | 'local:<type>' | 'infinite:<type>'"""
    t = norm(ty)
    t = re.sub(r"^&(mut )?", "", t)
    t = re.sub(r"\{closure@[^}]*\}", "closure", t)
    t = re.sub(r"\{[^{}]*\}", "", t)          # fn-item annotation of `map(str::trim)`: `fn(&str) -> &str {core::str::<impl str>::trim}`
    if "impl " in t or "dyn " in t:
        return "generic"
    names = type_names(t)
    for n in names:
        if n in INFINITE:
            return f"infinite:{n}"
    # iterators over a collection: their type parameters are ELEMENT types (a generic `T` there says nothing about termination)
    if re.match(r"(std|core|alloc)::(vec::IntoIter|vec::Drain|slice::Iter|slice::IterMut|collections::(hash_map|hash_set|btree_map|btree_set|vec_deque)::\w+|option::(IntoIter|Iter|IterMut)|result::(IntoIter|Iter))\b", t):
        return "finite"
    for n in names:
        if n in PRIMS or n == "closure":
            continue
        if re.fullmatch(r"[A-Z][A-Za-z0-9]?", n):
            return "generic"
        full = n if n.startswith(("cooklang", "std::", "core::", "alloc::")) else n
        cand = [full, "cooklang::" + full, "cooklang_bindings::" + full]
        if any(c in local_iter_types for c in cand):
            return f"local:{n}"
    return "finite"


def next_calls(F, f, scc, local_iter_types):
    """Blocks of the SCC that call Iterator::next / next_back, with the iterator classification."""
    out = []
    for b in scc:
        t = f.blocks[b]["term"]
        if t["k"] != "call":
            continue
        d = callee_def(t)
        if d not in ("std::iter::Iterator::next", "std::iter::DoubleEndedIterator::next_back", "core::iter::Iterator::next"):
            continue
        a0 = t["args"][0] if t.get("args") else None
        l = operand_local(a0) if a0 else None
        ty = f.local_ty(l) if l is not None else ""
        out.append((b, iterator_class(F, ty, local_iter_types), ty))
    return out


def acyclic_without(f, scc, K):
    """True iff every cycle inside `scc` passes through a block of K."""
    rest = [b for b in scc if b not in K]
    rs = set(rest)
    color = {}

    def dfs(v):
        color[v] = 1
        for w in f.succ[v]:
            if w not in rs:
                continue
            c = color.get(w, 0)
            if c == 1:
                return [v, w]
            if c == 0:
                r = dfs(w)
                if r:
                    return [v] + r
        color[v] = 2
        return None

    import sys
    sys.setrecursionlimit(10000)
    for v in rest:
        if color.get(v, 0) == 0:
            r = dfs(v)
            if r:
                return False, r
    return True, None


def loop_var_name(f, var):
    """A loop variable of a table row: its debug name, or `@arg<n>(<callee suffix>)` = the named local handed (through
    temporaries and reborrows) as argument n to the call of that callee — so the row survives a rename of the variable."""
    m = re.match(r"@arg(\d+)\((.*)\)$", var)
    if not m:
        return var
    n, suffix = int(m.group(1)), m.group(2)
    for b, t in f.calls():
        if not (_suffix(callee_key(t) or "", suffix) or _suffix(callee_def(t) or "", suffix)) or len(t.get("args", [])) <= n:
            continue
        pl = t["args"][n].get("copy") or t["args"][n].get("move")
        for _ in range(8):
            if pl is None:
                break
            name = f.local_name(pl["l"])
            if name and not pl["p"]:
                return name
            if name and all(p == "*" for p in pl["p"]):
                return name
            ds = f.defs.get(pl["l"], [])
            if len(ds) != 1 or ds[0][0] != "stmt":
                break
            rv = ds[0][3]["rv"]
            if rv["k"] == "use":
                pl = rv["op"].get("copy") or rv["op"].get("move")
            elif rv["k"] == "ref":
                pl = rv["place"]
            else:
                break
    return var


def progress_blocks(F, f, scc, spec):
    """Blocks of the SCC matching one progress construct of a table row."""
    K = set()
    for b in scc:
        t = f.blocks[b]["term"]
        for p in spec:
            if p.startswith("call:"):
                suffix = p[5:]
                if t["k"] == "call":
                    ck = callee_key(t) or ""
                    dk = callee_def(t) or ""
                    if _suffix(ck, suffix) or _suffix(dk, suffix):
                        K.add(b)
            elif p.startswith("assign:"):
                var, op = p[len("assign:"):].rsplit(":", 1)
                var = loop_var_name(f, var)
                for s in f.blocks[b]["stmts"]:
                    if s["k"] == "assign" and not s["place"]["p"] and f.local_name(s["place"]["l"]) == var:
                        if op == "*" or _assign_uses_op(f, s, op):
                            K.add(b)
    return K


def strip_generics(key):
    """Remove `::<...>` turbofish segments (bracket matching; closure types contain colons)."""
    out = []
    i = 0
    n = len(key)
    while i < n:
        if key.startswith("::<", i) and not _is_qualified_self(key, i + 2):
            depth = 0
            j = i + 2
            while j < n:
                if key[j] == "<":
                    depth += 1
                elif key[j] == ">" and key[j - 1] != "-":
                    depth -= 1
                    if depth == 0:
                        break
                j += 1
            i = j + 1
            continue
        out.append(key[i])
        i += 1
    return "".join(out)


def _is_qualified_self(key, lt):
    """`<X as Trait>` / `<impl ..>` path segments are part of the name, not turbofish arguments."""
    depth = 0
    j = lt
    while j < len(key):
        c = key[j]
        if c == "<":
            depth += 1
        elif c == ">" and key[j - 1] != "-":
            depth -= 1
            if depth == 0:
                break
        j += 1
    inner = key[lt + 1:j]
    if inner.startswith("impl "):
        return True
    d = 0
    for n, c in enumerate(inner):
        if c == "<":
            d += 1
        elif c == ">" and inner[n - 1] != "-":
            d -= 1
        elif d == 0 and inner.startswith(" as ", n):
            return True
    return False


def _suffix(key, suffix):
    key = strip_generics(key)
    suffix = strip_generics(suffix)
    return key == suffix or key.endswith("::" + suffix) or key.endswith(suffix)


def _assign_uses_op(f, s, op):
    rv = s["rv"]
    if rv["k"] == "bin" and rv["op"].startswith(op):
        return True
    # `x -= 1` lowers to tmp = SubWithOverflow(x, 1); assert; x = move tmp.0
    e = resolve(f, rv.get("op")) if rv["k"] == "use" else None
    if e:
        for n in walk(e):
            if n[0] == "bin" and n[1].startswith(op):
                return True
    return False


def d3_progress(chk, F: Facts, pid="C03", only_regions=None):
    tab = load("progress.toml")
    rows = {r["function"]: r for r in tab.get("loop", [])}
    rec_rows = {r["function"]: r for r in tab.get("recursion", [])}
    local_iter_types = set()
    for im in F.impls:
        if im.get("trait") in ("std::iter::Iterator", "core::iter::Iterator"):
            st = re.sub(r"<.*", "", im["self"])
            local_iter_types.add(st if st.startswith("cooklang") else im["crate"] + "::" + st)
    rule = f"{pid}.D3-progress"
    stats = Counter()
    used_rows = set()
    for k in sorted(F.funcs):
        f = F.funcs[k]
        if f.crate not in CRATES or f.generated:
            continue
        if f.kind.startswith(("Const", "AssocConst", "Static", "AnonConst", "InlineConst")):
            continue
        region = region_of(k)
        if only_regions is not None and region not in only_regions:
            continue
        for scc in f.sccs():
            # tracing::instrument emits `if false { loop {} }`: by macro origin
            if all(any("tracing::" in m for m in f.blocks[b]["term"].get("macros", [])) for b in scc):
                stats["tracing-fake-loop"] += 1
                continue
            nc = next_calls(F, f, scc, local_iter_types)
            where = f"{f.file}:{min(f.blocks[b]['term'].get('line', 0) or 0 for b in scc)}"
            finiteK = {b for b, cls, _ in nc if cls == "finite"}
            ok, _ = acyclic_without(f, scc, finiteK)
            lkey = f"{k}|loop@{loop_sig(f, scc)}"
            if ok and finiteK:
                stats["ITER"] += 1
                chk.ok(rule, lkey, f"{where}: ITER — every cycle passes through next() of a finite std iterator "
                       f"({sorted({norm(t)[:60] for _, c, t in nc if c == 'finite'})[0]})")
                continue
            row = rows.get(k) or rows.get(region)      # a loop moved into a closure of the reviewed function keeps its row
            if row is None:
                why = "; ".join(f"next() on {c} iterator `{norm(t)[:70]}`" for _, c, t in nc if c != "finite") or "no iterator drives it"
                chk.fail(rule, lkey, where, f"unreviewed loop without a recognised progress construct in {k}: {why}",
                         {"blocks": scc})
                continue
            used_rows.add(k if k in rows else region)
            K = progress_blocks(F, f, scc, row["progress"]) | finiteK
            ok, cyc = acyclic_without(f, scc, K)
            if not K:
                chk.fail(rule, lkey, where, f"progress construct {row['progress']} of the reviewed loop in {k} is gone: nothing advances the loop")
            elif not ok:
                lines = sorted({f.blocks[b]["term"].get("line") for b in cyc if f.blocks[b]["term"].get("line")})
                chk.fail(rule, lkey, where, f"a cycle of the loop in {k} avoids every progress construct {row['progress']} "
                         f"(cycle through lines {lines}): possible non-termination", {"cycle": cyc})
            else:
                stats["TABLE"] += 1
                chk.ok(rule, lkey, f"{where}: every cycle passes through {row['progress']} — {row['reason']}")
        # extra must-pass obligations of a row (entry -> return)
    for k, row in rows.items():
        if only_regions is not None and region_of(k) not in only_regions:
            continue
        if k not in F.funcs:
            chk.fail("anchor-missing", f"progress row {k}", "", f"anchor-missing: function {k} of tables/progress.toml not found")
            continue
        if k not in used_rows and not row.get("extra_only"):
            # the loop became an ITER loop or disappeared: fine (one-directional), note it
            chk.notes.setdefault("progress_rows_unused", []).append(k)
        for ob in row.get("must_pass", []):
            check_must_pass(chk, F, rule, ob)
    for ob in tab.get("lineage", []):
        if only_regions is not None and region_of(ob["function"]) not in only_regions:
            continue
        check_lineage(chk, F, rule, ob)
    for ob in tab.get("must_pass", []):
        if only_regions is not None and region_of(ob["function"]) not in only_regions:
            continue
        check_must_pass(chk, F, rule, ob)

    # ---- recursion -------------------------------------------------------------------------
    sccs = callgraph_sccs(F)
    for comp in sccs:
        fs = [F.funcs[k] for k in comp]
        if all(f.generated for f in fs) or not any(f.crate in CRATES for f in fs):
            continue
        if only_regions is not None and not any(region_of(k) in only_regions for k in comp):
            continue
        comp_key = "+".join(sorted({region_of(k) for k in comp}))
        # structural recursion over types through a generic wrapper, found by class-hierarchy resolution
        if is_type_structural(F, comp):
            stats["REC-type-structural"] += 1
            chk.ok(rule, f"rec|{comp_key}", f"recursion {comp_key[:100]}: structural over a finite type tree (generic wrapper resolved by class hierarchy)")
            continue
        regions = sorted({region_of(k) for k in comp})
        row = None
        for r in regions:
            if r in rec_rows:
                row = rec_rows[r]
        where = f"{fs[0].file}:{fs[0].line}"
        if row is None:
            chk.fail(rule, f"rec|{comp_key}", where, f"unreviewed recursion cycle: {' -> '.join(comp)}")
            continue
        if row.get("structural"):
            ok_s, why = check_structural_recursion(F, comp, row["structural"])
            chk.expect(ok_s, rule, f"rec|{comp_key}", where, f"structural recursion argument for {comp_key} no longer holds: {why}",
                       sample=f"{where}: structural recursion over `{row['structural']}` — {row['reason']}")
            stats["REC-table"] += 1
            continue
        # every recursive call must be preceded (dominated) by the progress call
        okall = True
        for k in comp:
            f = F.funcs[k]
            rec_blocks = [b for b, t in f.calls() if (callee_key(t) in comp) or any(tgt in comp and kind in ("cha",) for kind, tgt, bb, _ in F.call_edges(f) if bb == b)]
            prog = [b for b, t in f.calls() if any(_suffix(callee_key(t) or "", p[5:]) for p in row["progress"] if p.startswith("call:"))]
            for rb in rec_blocks:
                if f.blocks[rb]["term"]["k"] != "call" or callee_key(f.blocks[rb]["term"]) not in comp:
                    continue
                if not prog or rb in f.reach_from(0, removed_nodes=prog):
                    okall = False
                    chk.fail(rule, f"rec|{comp_key}|{k}", f.where(rb),
                             f"recursive call in {k} is reachable without passing through {row['progress']}: possible unbounded recursion")
        if okall:
            stats["REC-table"] += 1
            chk.ok(rule, f"rec|{comp_key}", f"{where}: every recursive call is preceded by {row['progress']} — {row['reason']}")
    chk.notes.setdefault("loop_stats", {}).update(stats)
    return stats


def check_structural_recursion(F, comp, field):
    """(a) every recursive call passes a value reached through `.field` of the parameter;
    (b) every aggregate that builds the recursed-over struct inside the SI expansion sets `field` to None."""
    for k in comp:
        f = F.funcs[k]
        n = 0
        for b, t in f.calls():
            if callee_key(t) in comp:
                n += 1
                ls = set()
                for a in t.get("args", []):
                    ls |= leaves(resolve(f, a))
                # the loop variable comes from iterating `unit.expanded_units`
                if not any(("." + field) in l for l in ls) and not _block_dominated_by_field_iter(f, b, field):
                    return False, f"recursive call in {k} does not descend through .{field}"
        if n == 0:
            return False, f"no recursive call found in {k}"
    n_aggs = 0
    for fk, g in F.funcs.items():
        if not fk.startswith("cooklang::convert::builder::expand_si"):
            continue
        for i, j, st in g.iter_stmts():
            rv = st.get("rv", {})
            if rv.get("k") == "agg" and rv.get("agg") == "adt" and rv.get("adt", "").endswith("UnitBuilder"):
                n_aggs += 1
                idx = rv["fields"].index(field) if field in rv["fields"] else -1
                if idx < 0:
                    return False, "UnitBuilder aggregate without the field"
                e = resolve(g, rv["ops"][idx])
                if not (e[0] == "agg" and e[3] == "None"):
                    return False, f"expand_si builds a UnitBuilder whose {field} is not None ({show(e)})"
    if n_aggs == 0:
        return False, "anchor-missing: no UnitBuilder aggregate in expand_si"
    return True, ""


def _block_dominated_by_field_iter(f, b, field):
    """the block is inside a loop whose iterator was created from a place containing `.field`"""
    for i, t in f.calls():
        ck = callee_key(t) or ""
        if ck.endswith("into_iter") or ck.endswith("::iter"):
            ls = set()
            for a in t.get("args", []):
                ls |= leaves(resolve(f, a))
            if any(("." + field) in l for l in ls) and f.node_dominates(i, b):
                return True
    # `if let Some(x) = &unit.field` then iterate x
    for i, j, st in f.iter_stmts():
        rv = st.get("rv", {})
        if rv.get("k") in ("ref", "discr"):
            if ("." + field) in rv["place"]["p"] and f.node_dominates(i, b):
                return True
    return False


def loop_sig(f, scc):
    """Line-free signature of a loop: multiset of callee short names inside it (stable under
    edits elsewhere in the function)."""
    names = []
    for b in scc:
        t = f.blocks[b]["term"]
        if t["k"] == "call":
            ck = callee_key(t)
            if ck:
                names.append(inventory.short(ck).split("::")[-1])
    c = Counter(names)
    top = sorted(c.items(), key=lambda x: (-x[1], x[0]))[:3]
    return ",".join(f"{n}" for n, _ in top) or "nocall"


def check_must_pass(chk, F, rule, ob):
    """Every entry->return path of `function` passes through a call to one of `through`
    (optionally only paths that reach a block matching `before`)."""
    k = ob["function"]
    f = F.funcs.get(k)
    if f is not None and ob.get("closure_arg_of"):
        # the closure passed to a given callee inside `function` (closure ordinals shift under edits)
        cands = []
        for g in F.region_funcs(region_of(k)):
            for b, t in g.calls():
                if _suffix(callee_key(t) or "", ob["closure_arg_of"]):
                    for a in t.get("args", []):
                        e = resolve(g, a)
                        for nnode in walk(e):
                            if nnode[0] == "agg" and nnode[1] == "closure":
                                cands.append(nnode[2])
        cands = sorted(set(cands))
        if len(cands) != 1:
            chk.fail("anchor-missing", f"mustpass|{k}|closure_arg_of {ob['closure_arg_of']}", f"{f.file}:{f.line}",
                     f"anchor-missing: expected one closure passed to {ob['closure_arg_of']} in {k}, found {len(cands)}")
            return
        k = cands[0]
        f = F.funcs.get(k)
        key = f"mustpass|{region_of(k)}|closure->{ob['closure_arg_of']}|{','.join(ob['through'])}"
    else:
        key = f"mustpass|{k}|{','.join(ob['through'])}|{ob.get('before', 'return')}"
    if f is None:
        chk.fail("anchor-missing", key, "", f"anchor-missing: function {k} not found")
        return
    K = [b for b, t in f.calls() if any(_suffix(callee_key(t) or "", p) or _suffix(callee_def(t) or "", p) for p in ob["through"])]
    if not K:
        chk.fail(rule, key, f"{f.file}:{f.line}", f"{k} no longer calls any of {ob['through']}: {ob['reason']}")
        return
    if ob.get("before"):
        targets = [b for b, t in f.calls() if _suffix(callee_key(t) or "", ob["before"])]
        if not targets:
            chk.fail("anchor-missing", key, f"{f.file}:{f.line}", f"anchor-missing: {k} has no call to {ob['before']}")
            return
    elif ob.get("before_some_return"):
        targets = some_return_blocks(f)
        if not targets:
            chk.fail("anchor-missing", key, f"{f.file}:{f.line}", f"anchor-missing: {k} has no `Some(..)` return")
            return
    else:
        targets = f.returns()
    reach = f.reach_from(0, removed_nodes=K)
    bad = [b for b in targets if b in reach]
    if bad:
        chk.fail(rule, key, f.where(bad[0]), f"a path of {k} reaches {ob.get('before') or 'its return'} without passing through {ob['through']}: {ob['reason']}")
    else:
        chk.ok(rule, key, f"{f.file}:{f.line}: every path to {ob.get('before') or ('a Some(..) return' if ob.get('before_some_return') else 'return')} passes through {ob['through']} — {ob['reason']}")


def check_lineage(chk, F, rule, ob):
    """Every assignment to user variable `var` inside a loop of `function` has `must` among its leaves."""
    f = F.funcs.get(ob["function"])
    key = f"lineage|{ob['function']}|{ob['var']}"
    if f is None:
        chk.fail("anchor-missing", key, "", f"anchor-missing: function {ob['function']} not found")
        return
    in_loop = set()
    for scc in f.sccs():
        in_loop |= set(scc)
    n = 0
    var = loop_var_name(f, ob["var"])
    for i, j, st in f.iter_stmts():
        if st["k"] == "assign" and not st["place"]["p"] and f.local_name(st["place"]["l"]) == var and i in in_loop:
            n += 1
            e = resolve_rv(f, st["rv"], i)
            ls = leaves(e)
            txt = show(e)
            if not any(ob["must"] in l for l in ls) or (ob.get("field") and ob["field"] not in txt):
                chk.fail(rule, key, f"{f.file}:{st.get('line')}", f"`{ob['var']}` is re-assigned in the loop from {txt}, not from {ob['must']}{ob.get('field', '')}: {ob['reason']}")
                return
    if n == 0:
        chk.fail(rule, key, f"{f.file}:{f.line}", f"no assignment to `{ob['var']}` inside a loop of {ob['function']}: {ob['reason']}")
    else:
        chk.ok(rule, key, f"{f.file}:{f.line}: `{ob['var']}` is advanced from {ob['must']}{ob.get('field', '')} — {ob['reason']}")


def resolve_rv(f, rv, block):
    from flow import resolve_rvalue
    return resolve_rvalue(f, rv, 0, frozenset(), block)


def some_return_blocks(f):
    """Blocks that assign Option::Some(..) to the return place."""
    out = []
    for i, j, s in f.iter_stmts():
        if s["k"] == "assign" and s["place"]["l"] == 0 and not s["place"]["p"]:
            rv = s["rv"]
            if rv["k"] == "agg" and rv.get("agg") == "adt" and rv.get("variant") == "Some":
                out.append(i)
    return out


def callgraph_sccs(F):
    import sys
    sys.setrecursionlimit(100000)
    nodes = list(F.funcs)
    g = {k: [t for t in F.callgraph.get(k, ()) if t in F.funcs] for k in nodes}
    index, low, st, on, out, c = {}, {}, [], set(), [], [0]

    def strong(v):
        index[v] = low[v] = c[0]
        c[0] += 1
        st.append(v)
        on.add(v)
        for w in g[v]:
            if w not in index:
                strong(w)
                low[v] = min(low[v], low[w])
            elif w in on:
                low[v] = min(low[v], index[w])
        if low[v] == index[v]:
            comp = []
            while True:
                w = st.pop()
                on.discard(w)
                comp.append(w)
                if w == v:
                    break
            if len(comp) > 1 or v in g[v]:
                out.append(sorted(comp))

    for v in sorted(nodes):
        if v not in index:
            strong(v)
    return out


def is_type_structural(F, comp):
    """A recursion cycle that exists only because a generic wrapper's `T::method` call was
    resolved by class-hierarchy analysis to every impl (Located<T>::clone -> *::clone)."""
    compset = set(comp)
    for k in comp:
        f = F.funcs[k]
        for kind, tgt, b, t in F.call_edges(f):
            if tgt in compset and kind != "cha":
                # a direct (resolved) edge inside the cycle is fine only if some other edge of the cycle is cha
                continue
    # remove cha edges: does the cycle survive?
    g = {k: set() for k in comp}
    for k in comp:
        for kind, tgt, b, t in F.call_edges(F.funcs[k]):
            if tgt in compset and kind != "cha":
                g[k].add(tgt)
    # cycle detection
    color = {}

    def dfs(v):
        color[v] = 1
        for w in g[v]:
            if color.get(w, 0) == 1:
                return True
            if color.get(w, 0) == 0 and dfs(w):
                return True
        color[v] = 2
        return False

    return not any(color.get(v, 0) == 0 and dfs(v) for v in comp)


ADJACENT_ARGS = {"parser::block_parser::BlockParser::slice_str": 1, "parser::block_parser::BlockParser::text": 2, "parser::quantity::float": 0}


def d6_adjacent_slices(chk, F):
    """BlockParser::slice_str / ::text (and quantity::float, which calls slice_str) assert — debug_assert_adjacent! — that the
    tokens they receive are consecutive.  That holds for sub-slices of the block's token slice; it does not hold for a COPY from
    which tokens were dropped.  So the token argument of every call may be built by slicing / splitting / trimming only: no
    collect / filter / to_vec / owned buffer in its lineage."""
    OWNED = ("collect", "from_iter", "to_vec", "into_vec", "filter", "filter_map", "extend", "push", "SmallVec", "cloned", "copied", "retain", "dedup")
    n = 0
    for k, f in sorted(F.funcs.items()):
        if f.crate != "cooklang" or f.generated:
            continue
        for b, t in f.calls():
            ck = callee_key(t) or ""
            idx = next((i for sfx, i in ADJACENT_ARGS.items() if ck.endswith(sfx)), None)
            if idx is None or idx >= len(t.get("args", [])):
                continue
            n += 1
            e = resolve(f, t["args"][idx])
            calls = [l[5:] for l in leaves(e) if l.startswith("call:")]
            bad = [c for c in calls if any(o in c.rsplit("::", 2)[-1] or o in c for o in OWNED if o == c.rsplit("::", 1)[-1] or (o == "SmallVec" and "SmallVec" in c))]
            tys = " ".join(f.local_ty(p["l"]) or "" for a in [t["args"][idx]] for p in [a.get("move") or a.get("copy")] if p)
            chk.expect(not bad, "C03.D6-adjacent-slices", f"{region_of(k)}|{ck.rsplit('::', 1)[-1]}", f.where(b),
                       f"{ck.rsplit('::', 1)[-1]} receives tokens that went through {sorted(set(c.rsplit('::', 1)[-1] for c in bad))}: a copy with tokens removed is "
                       "not adjacent, and debug_assert_adjacent! in slice_str / text panics (e.g. a quantity written `1 .5`)",
                       sample=f"{f.where(b)}: token argument is a sub-slice ({sorted(set(c.rsplit('::', 1)[-1] for c in calls))[:4]})")
    chk.floor("C03.D6-adjacent-slices", "calls passing a token slice to slice_str / text / float", n, 12)


# =================================================================================================
def run(chk: harness.Check):
    paths, th = harness.mir_facts("Q")
    F = Facts(paths)
    chk.explanation = (
        "Three inventories decided exhaustively on the MIR of cooklang and cooklang-bindings (library targets, dev profile, "
        "debug assertions and overflow checks on): D1 every explicit failure site (panic!/assert!/debug_assert!/unreachable!/"
        "todo!, unwrap/expect, unsafe calls, raw dereferences) is a reviewed entry of tables/panics.toml and todo!/unimplemented! "
        "never are; D2 every arithmetic operation on a narrow integer, every usize subtraction, narrowing cast and integer "
        "sum/product is reviewed in tables/narrow_arith.toml; D3 every CFG loop is driven by a finite std iterator or every one of "
        "its cycles passes through the reviewed progress construct of tables/progress.toml, and every recursion cycle is preceded "
        "by its progress call. This decides that the set of ways the library can fail to return is the reviewed set — not that it never fails: "
        "index and slice sites are an armed inventory (D4, tables/index_sites.toml) whose entries carry machine-checked dominance requirements where the invariant is local — the inventory includes std calls that panic on a bad index, a non-char-boundary or a zero size (split_at, Vec::insert/remove, String::insert/truncate, windows/chunks, step_by, RefCell::borrow, integer abs/pow); usize additions are counted only. D6: the token slice handed to slice_str / text / float is never an owned, filtered copy (debug_assert_adjacent!). D5: every offset that reaches a diagnostic label has the provenance C04.D1 accepts (report rendering panics on anything else).")
    chk.trusted = ["rustc MIR (dev profile: overflow checks and debug assertions present)",
                   "macro-generated items (derive, bitflags, thiserror, strum, uniffi scaffolding) trusted by origin",
                   "std/dependency internals (serde_yaml, codesnake) out of scope", "tables/*.toml are the reviewed reference"]
    n_sites, n_groups = d1_inventory(chk, F)
    chk.floor("C03.D1-inventory", "failure sites", n_sites, 120)
    n_arith = d2_arith(chk, F)
    chk.floor("C03.D2-arith", "integer arithmetic sites", n_arith, 25)
    stats = d3_progress(chk, F)
    chk.floor("C03.D3-progress", "loops analysed", stats["ITER"] + stats["TABLE"], 60)
    n_idx = d4_index(chk, F)
    chk.floor("C03.D4-index", "index / slice sites", n_idx, 80)
    d6_adjacent_slices(chk, F)
    # D5: "rendering the diagnostics report" panics inside codesnake when a label is off a char boundary or out of the input:
    # the offset-provenance rule decided for C04 is a necessary condition here as well
    import c04
    sub = harness.Check("C04", chk.tier)
    c04.run(sub)
    harness.fold(chk, sub, lambda r: "C03.D5-report-offsets." + r.split(".", 1)[1] if r.startswith("C04.") else r,
                 keep=lambda r: r in ("C04.D1-provenance", "C04.D1-discharge", "anchor-missing"))
    # census (not armed)
    census = Counter()
    for k, f in F.funcs.items():
        if f.crate not in CRATES or f.generated:
            continue
        for i, t in f.iter_terms("assert"):
            census["assert:" + t["akind"]] += 1
        for i, t in f.calls():
            ck = callee_key(t) or ""
            if "ops::Index" in ck or "ops::IndexMut" in ck:
                census["index-call"] += 1
    if chk.tier == "thorough":
        thorough_extras(chk, F)
    chk.analysed = {"facts": th, "failure_sites": n_sites, "failure_keys": n_groups, "arith_sites": n_arith,
                    "loops": dict(stats), "census_not_armed": dict(census),
                    "functions": sum(1 for f in F.funcs.values() if f.crate in CRATES and not f.generated),
                    "generated_functions_trusted": sum(1 for f in F.funcs.values() if f.generated)}


def thorough_extras(chk, F):
    """(1) the same three inventories on the other feature configurations (code that the default build does not
    compile); (2) census cross-reference with clippy's type-resolved restriction lints."""
    import thorough
    # NODEFAULT / AISLE are not usable: at the pinned commit only the default feature set builds (see DESIGN.md §10)
    for cfg in ("RELEASE",):
        try:
            paths, th = harness.mir_facts(cfg)
        except harness.SetupError as e:
            chk.fail("C03.T-config", cfg, "", f"configuration {cfg} does not build: {str(e)[:300]}")
            continue
        Fc = Facts(paths)
        sub = harness.Check("C03", "thorough")
        d1_inventory(sub, Fc, pid="C03")
        d2_arith(sub, Fc, pid="C03")
        d3_progress(sub, Fc, pid="C03")
        # table-driven rules may legitimately miss anchors that are compiled out; only new sites matter here
        news = [v for v in sub.violations if v.rule != "anchor-missing" and "anchor-missing" not in v.message and "no longer" not in v.message
                and not (v.rule == "C03.D1-inventory" and v.key == "cooklang::ast::build_ast|todo|todo")]
        for v in news:
            chk.fail(v.rule, f"[{cfg}] {v.key}", v.where, f"[features {cfg}] {v.message}")
        chk.ok("C03.T-config", cfg, f"{cfg}: {sub.obligations} obligations re-evaluated on {len(Fc.funcs)} bodies, {len(news)} new site(s)")
    census = thorough.clippy_census()
    mine = Counter()
    for s_ in inventory.failure_sites(F, CRATES):
        if is_box_deref_site(F, s_):
            continue
        crate = "cooklang_bindings" if s_["region"].startswith("cooklang_bindings") else "cooklang"
        mine[(crate, s_["kind"])] += 1
    pairs = [("unwrap", "unwrap_used", "eq"), ("expect", "expect_used", "eq"), ("panic", "panic", "eq"), ("todo", "todo", "eq"), ("unreachable", "unreachable", "ge")]
    for crate in ("cooklang", "cooklang_bindings"):
        for kind, lint, mode in pairs:
            a, b = mine[(crate, kind)], census[(crate, lint)]
            ok = a == b if mode == "eq" else a >= b
            chk.expect(ok, "C03.T-clippy-census", f"{crate}|{lint}", "",
                       f"census mismatch in {crate}: the MIR inventory has {a} `{kind}` site(s), clippy::{lint} reports {b}: a site is invisible to one of the two extractors",
                       sample=f"{crate}: {kind} {a} (MIR) vs {b} (clippy::{lint})")
