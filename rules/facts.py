"""Fact base: loads the JSON written by engines/mirfacts and offers CFG / call-graph /
def-use primitives.  Nothing in here executes cooklang code; everything is graph work on
the compiler's MIR of the current working tree."""
from __future__ import annotations

import json
import re
from collections import defaultdict
from functools import lru_cache

_LT = re.compile(r"'[a-z_][a-z_0-9]*")


def norm(s: str) -> str:
    """Normalise a def path / type string: drop lifetimes so that keys do not depend on
    lifetime parameter names."""
    if "'" not in s:
        return s
    s = _LT.sub("", s)
    # clean the debris left by removed lifetimes
    for _ in range(4):
        s = s.replace("<, ", "<").replace(", >", ">").replace(", ,", ",")
        s = s.replace("::<>", "").replace("<>", "")
        s = s.replace("& ", "&").replace("&mut  ", "&mut ")
        s = s.replace("< ", "<")
    return s


_CLOSURE = re.compile(r"::\{closure#[^}]*\}")


def region_of(key: str) -> str:
    return _CLOSURE.sub("", key)


class Func:
    __slots__ = (
        "key", "raw_key", "kind", "file", "line", "macros", "root", "parent", "locals",
        "blocks", "argc", "vis", "exported", "impl_self", "impl_trait", "crate", "unsafe",
        "succ", "pred", "_defs", "upvars", "nblocks", "live",
    )

    def __init__(self, j, crate):
        self.raw_key = j["key"]
        self.key = norm(j["key"])
        self.kind = j.get("kind", "")
        self.file = j.get("file", "")
        self.line = j.get("line", 0)
        self.macros = j.get("macros", [])
        self.root = norm(j["root"]) if "root" in j else None
        self.parent = norm(j["parent"]) if "parent" in j else None
        self.locals = j.get("locals", [])
        self.blocks = j.get("blocks", [])
        self.argc = j.get("argc", 0)
        self.vis = j.get("vis")
        self.exported = j.get("exported", False)
        self.impl_self = norm(j["impl_self"]) if "impl_self" in j else None
        self.impl_trait = norm(j["impl_trait"]) if "impl_trait" in j else None
        self.unsafe = j.get("unsafe", False)
        self.upvars = j.get("upvars", [])
        self.crate = crate
        self._defs = None
        self.nblocks = len(self.blocks)
        self._build_cfg()

    # ---- CFG --------------------------------------------------------------------------
    def _build_cfg(self):
        n = self.nblocks
        self.succ = [[] for _ in range(n)]
        self.pred = [[] for _ in range(n)]
        # locals assigned exactly once, from a literal: `if false {..}` lowers to _x = const false; switch(move _x)
        nassign = {}
        lit = {}
        for b in self.blocks:
            for st in b["stmts"]:
                if st["k"] == "assign" and not st["place"]["p"]:
                    l = st["place"]["l"]
                    nassign[l] = nassign.get(l, 0) + 1
                    rv = st["rv"]
                    if rv["k"] == "use" and "const" in rv["op"] and "bits" in rv["op"]["const"] and "path" not in rv["op"]["const"]:
                        lit[l] = rv["op"]["const"]["bits"]
            t = b["term"]
            if t["k"] == "call" and not t["dest"]["p"]:
                nassign[t["dest"]["l"]] = nassign.get(t["dest"]["l"], 0) + 1
        const_local = {l: v for l, v in lit.items() if nassign.get(l) == 1}
        for i, b in enumerate(self.blocks):
            if b.get("cleanup"):
                continue
            t = b["term"]
            k = t["k"]
            ss = []
            if k in ("goto", "drop", "assert"):
                ss = [t["target"]]
            elif k == "call":
                if "target" in t:
                    ss = [t["target"]]
            elif k == "switch":
                c = t["discr"].get("const")
                dp = t["discr"].get("move") or t["discr"].get("copy")
                if c is None and dp is not None and not dp["p"] and dp["l"] in const_local:
                    c = {"bits": const_local[dp["l"]]}
                if c is not None and "bits" in c:
                    # branch on a literal (e.g. tracing's `if false { loop {} }`): only the taken edge exists
                    hit = [x[1] for x in t["targets"] if x[0] == c["bits"]]
                    ss = hit[:1] if hit else [t["otherwise"]]
                else:
                    ss = [x[1] for x in t["targets"]] + [t["otherwise"]]
            seen = []
            for s in ss:
                if s not in seen:
                    seen.append(s)
            self.succ[i] = seen
            for s in seen:
                self.pred[s].append(i)
        # live = reachable from entry
        self.live = self.reach_from(0) if n else set()

    def is_closure(self):
        return self.kind == "Closure"

    @property
    def region(self):
        return region_of(self.key)

    @property
    def generated(self):
        """Function whose definition comes out of a macro expansion other than
        tracing::instrument (derives, bitflags!, thiserror, strum, uniffi ...)."""
        for m in self.macros:
            if "tracing::instrument" in m:
                continue
            return True
        return False

    def reach_from(self, start, removed_edges=(), removed_nodes=()):
        removed_edges = set(removed_edges)
        removed_nodes = set(removed_nodes)
        if start in removed_nodes:
            return set()
        seen = {start}
        st = [start]
        while st:
            x = st.pop()
            for s in self.succ[x]:
                if (x, s) in removed_edges or s in removed_nodes or s in seen:
                    continue
                seen.add(s)
                st.append(s)
        return seen

    def reach_path_sensitive(self, start, limit=20000):
        """Blocks reachable from `start`, tracking literal assignments to locals so that a later
        `switch` on such a local follows only the feasible edge (handles `a || b` joins, where the
        short-circuit stores a literal bool that is branched on after the join)."""
        seen = set()
        out = set()
        st = [(start, ())]
        n = 0
        while st and n < limit:
            b, state = st.pop()
            if (b, state) in seen:
                continue
            seen.add((b, state))
            n += 1
            out.add(b)
            env = dict(state)
            blk = self.blocks[b]
            for s_ in blk["stmts"]:
                if s_["k"] == "assign" and not s_["place"]["p"]:
                    l = s_["place"]["l"]
                    rv = s_["rv"]
                    c = rv["op"].get("const") if rv["k"] == "use" else None
                    if c is not None and "bits" in c and "path" not in c and c.get("ty") in ("bool",):
                        env[l] = c["bits"]
                    elif rv["k"] == "use" and (rv["op"].get("copy") or rv["op"].get("move")) and \
                            not (rv["op"].get("copy") or rv["op"].get("move"))["p"] and (rv["op"].get("copy") or rv["op"].get("move"))["l"] in env:
                        env[l] = env[(rv["op"].get("copy") or rv["op"].get("move"))["l"]]
                    else:
                        env.pop(l, None)
            t = blk["term"]
            succ = self.succ[b]
            if t["k"] == "call" and not t["dest"]["p"]:
                env.pop(t["dest"]["l"], None)
            if t["k"] == "switch":
                dp = t["discr"].get("move") or t["discr"].get("copy")
                if dp is not None and not dp["p"] and dp["l"] in env:
                    v = env[dp["l"]]
                    hit = [x[1] for x in t["targets"] if x[0] == v]
                    succ = hit[:1] if hit else [t["otherwise"]]
            ns = tuple(sorted(env.items()))
            for x in succ:
                st.append((x, ns))
        return out

    def edge_dominates(self, edge, node):
        """True iff every entry->node path uses `edge` (node unreachable once the edge is cut)."""
        if node not in self.live:
            return True
        return node not in self.reach_from(0, removed_edges=[edge])

    def node_dominates(self, d, node):
        if d == node:
            return True
        return node not in self.reach_from(0, removed_nodes=[d])

    def returns(self):
        return [i for i in self.live if self.blocks[i]["term"]["k"] == "return"]

    def can_reach(self, a, b, removed_nodes=()):
        return b in self.reach_from(a, removed_nodes=removed_nodes)

    def sccs(self):
        """Non-trivial strongly connected components of the live CFG (loops)."""
        index = {}
        low = {}
        onst = set()
        st = []
        out = []
        counter = [0]
        import sys
        sys.setrecursionlimit(10000)

        def strong(v):
            index[v] = low[v] = counter[0]
            counter[0] += 1
            st.append(v)
            onst.add(v)
            for w in self.succ[v]:
                if w not in index:
                    strong(w)
                    low[v] = min(low[v], low[w])
                elif w in onst:
                    low[v] = min(low[v], index[w])
            if low[v] == index[v]:
                comp = []
                while True:
                    w = st.pop()
                    onst.discard(w)
                    comp.append(w)
                    if w == v:
                        break
                if len(comp) > 1 or v in self.succ[v]:
                    out.append(sorted(comp))

        for v in sorted(self.live):
            if v not in index:
                strong(v)
        return out

    # ---- statements / terminators ---------------------------------------------------------
    def iter_stmts(self):
        for i in sorted(self.live):
            b = self.blocks[i]
            for j, s in enumerate(b["stmts"]):
                yield i, j, s

    def iter_terms(self, kind=None):
        for i in sorted(self.live):
            t = self.blocks[i]["term"]
            if kind is None or t["k"] == kind:
                yield i, t

    def calls(self):
        return self.iter_terms("call")

    def local_name(self, l):
        if l < len(self.locals):
            return self.locals[l].get("name")
        return None

    def local_ty(self, l):
        if l < len(self.locals):
            return norm(self.locals[l].get("ty", ""))
        return ""

    # ---- def-use ------------------------------------------------------------------------
    @property
    def defs(self):
        """local -> list of definitions: ('stmt', b, j, stmt) | ('call', b, term) for whole-local
        writes; projections writes are recorded under key (local,'proj')."""
        if self._defs is None:
            d = defaultdict(list)
            for i, j, s in self.iter_stmts():
                if s["k"] == "assign":
                    p = s["place"]
                    if not p["p"]:
                        d[p["l"]].append(("stmt", i, j, s))
                    else:
                        d[(p["l"], "proj")].append(("stmt", i, j, s))
            for i, t in self.calls():
                p = t["dest"]
                if not p["p"]:
                    d[p["l"]].append(("call", i, t))
                else:
                    d[(p["l"], "proj")].append(("call", i, t))
            self._defs = d
        return self._defs

    def where(self, b):
        t = self.blocks[b]["term"]
        return f"{self.file}:{t.get('line', self.line)}"


def place_str(f: Func, p) -> str:
    base = f.local_name(p["l"]) or f"_{p['l']}"
    s = base
    for e in p["p"]:
        if e == "*":
            s = f"(*{s})"
        else:
            s = s + (e if e.startswith(".") or e.startswith("[") else f" {e}")
    return s


def callee_key(t) -> str | None:
    c = t.get("callee")
    if not c:
        return None
    return norm(c.get("rdef") or c["def"])


def callee_def(t) -> str | None:
    c = t.get("callee")
    if not c:
        return None
    return norm(c["def"])


# When set, every Facts() is the normalised (single-use helpers and directly called closures inlined) view: see inline.py
NORMALISE = False


class Facts:
    def __init__(self, paths):
        self.crates = {}
        self.funcs: dict[str, Func] = {}
        self.adts = {}
        self.statics = []
        self.impls = []
        self.consts = {}
        self.auto_traits = {}
        self.meta = {}
        for p in paths:
            with open(p) as fh:
                j = json.load(fh)
            cn = j["crate"]
            self.crates[cn] = p
            self.meta[cn] = {k: j[k] for k in ("is_test", "crate_types", "debug_assertions", "overflow_checks")}
            dup = defaultdict(int)
            for fj in j["functions"]:
                if "error" in fj:
                    raise RuntimeError(f"fact extractor failed on {fj['key']}")
                f = Func(fj, cn)
                # keys of nested items with the same path (rare) get a numeric suffix
                k = f.key
                if k in self.funcs:
                    dup[k] += 1
                    k = f"{k}#{dup[k]}"
                    f.key = k
                self.funcs[k] = f
            for a in j["adts"]:
                a["key"] = norm(a["key"])
                a["crate"] = cn
                self.adts[a["key"]] = a
            for s in j["statics"]:
                s["key"] = norm(s["key"])
                s["crate"] = cn
                self.statics.append(s)
            for im in j["impls"]:
                im["crate"] = cn
                im["self"] = norm(im["self"])
                if "trait" in im:
                    im["trait"] = norm(im["trait"])
                for m in im["methods"]:
                    m["key"] = norm(m["key"])
                    if "trait_item" in m:
                        m["trait_item"] = norm(m["trait_item"])
                self.impls.append(im)
            for c in j["consts"]:
                self.consts[norm(c["key"])] = c
            for a in j["auto_traits"]:
                self.auto_traits[norm(a["key"])] = a
        self._cg = None
        self._closures_by_region = None
        # trait method -> impl method keys (class-hierarchy analysis for generic calls)
        self.trait_impls = defaultdict(list)
        for im in self.impls:
            for m in im["methods"]:
                if "trait_item" in m:
                    self.trait_impls[m["trait_item"]].append(m["key"])
        self._register_closures()
        self.inlined = None
        if NORMALISE:
            import inline
            base = inline.renamed(self)          # undo renames first, in every view
            n = inline.rehome(base) if NORMALISE == "rehome" else inline.normalise(base, closures=(NORMALISE == "inline-closures"))
            self.funcs = n.funcs
            self.inlined = n.inlined
            self._cg = None
            self._closures_by_region = None
            self._rev = None
            self._register_closures()

    def _register_closures(self):
        import flow
        for k, f in self.funcs.items():
            if f.is_closure() and f.upvars:
                flow.CLOSURE_FIELDS[k] = [next((x for x in u["place"]["p"] if x.startswith(".^")), None) for u in f.upvars]

    # ---- lookups --------------------------------------------------------------------------
    def fn(self, key) -> Func:
        return self.funcs[key]

    def find(self, suffix, crate=None):
        """Functions whose key ends with `suffix` (path-segment aligned)."""
        out = []
        for k, f in self.funcs.items():
            if crate and f.crate != crate:
                continue
            if k == suffix or k.endswith("::" + suffix):
                out.append(f)
        return out

    def one(self, suffix, crate=None) -> Func:
        r = self.find(suffix, crate)
        if len(r) != 1:
            raise AnchorMissing(f"expected exactly one function '{suffix}', found {len(r)}: {[x.key for x in r][:5]}")
        return r[0]

    def region_funcs(self, region_key):
        """The function plus all closures nested in it."""
        if self._closures_by_region is None:
            d = defaultdict(list)
            for f in self.funcs.values():
                d[f.region].append(f)
            self._closures_by_region = d
        return self._closures_by_region.get(region_key, [])

    def user_funcs(self, crate=None):
        for f in self.funcs.values():
            if crate and f.crate != crate:
                continue
            if f.kind.startswith(("Const", "AssocConst", "Static", "AnonConst", "InlineConst")):
                continue
            yield f

    # ---- call graph ---------------------------------------------------------------------
    def call_edges(self, f: Func):
        """Yield (kind, target_key, block, detail): resolved calls, closure creations, fn items
        used as values, and class-hierarchy resolution of unresolved trait method calls."""
        for i, t in f.calls():
            c = t.get("callee")
            if c:
                if "rdef" in c:
                    yield ("call", norm(c["rdef"]), i, t)
                else:
                    d = norm(c["def"])
                    impls = self.trait_impls.get(d)
                    if impls:
                        for k in impls:
                            yield ("cha", k, i, t)
                    else:
                        yield ("call", d, i, t)
            # fn items / closures passed as arguments
            for a in t.get("args", []):
                cst = a.get("const")
                if cst and "fn" in cst:
                    fk = cst["fn"]
                    yield ("fnref", norm(fk.get("rdef") or fk["def"]), i, t)
        for i, j, s in f.iter_stmts():
            if s["k"] != "assign":
                continue
            rv = s["rv"]
            if rv["k"] == "agg" and rv.get("agg") in ("closure", "coroutine", "coroutine_closure"):
                yield ("closure", norm(rv["closure"]), i, s)
            for op in rvalue_operands(rv):
                cst = op.get("const")
                if cst and "fn" in cst:
                    fk = cst["fn"]
                    yield ("fnref", norm(fk.get("rdef") or fk["def"]), i, s)

    @property
    def callgraph(self):
        if self._cg is None:
            g = defaultdict(set)
            for k, f in self.funcs.items():
                for kind, tgt, _, _ in self.call_edges(f):
                    g[k].add(tgt)
            self._cg = g
        return self._cg

    def reach(self, entries):
        seen = set()
        st = list(entries)
        while st:
            k = st.pop()
            if k in seen:
                continue
            seen.add(k)
            for t in self.callgraph.get(k, ()):
                if t not in seen:
                    st.append(t)
        return seen

    def callers_of(self, key):
        if getattr(self, "_rev", None) is None:
            rev = defaultdict(list)
            for k, f in self.funcs.items():
                for kind, tgt, b, t in self.call_edges(f):
                    rev[tgt].append((f, kind, b, t))
            self._rev = rev
        return self._rev.get(key, [])


class AnchorMissing(Exception):
    pass


def rvalue_operands(rv):
    k = rv["k"]
    if k in ("use", "repeat", "cast"):
        return [rv["op"]]
    if k == "bin":
        return [rv["l"], rv["r"]]
    if k == "un":
        return [rv["x"]]
    if k == "agg":
        return rv["ops"]
    return []


def operand_place(op):
    return op.get("copy") or op.get("move")


def operand_local(op):
    """Local of an operand when it is a bare local (no projection)."""
    p = operand_place(op)
    if p is not None and not p["p"]:
        return p["l"]
    return None


def const_of(op):
    return op.get("const")
