"""Inventory(kind) of DESIGN.md §3: enumerate failure sites of the resolved program, keyed
without line numbers by (function region, kind, detail) -> count."""
from __future__ import annotations

import re
from collections import defaultdict

from facts import Facts, Func, callee_key, region_of, norm
from flow import resolve, show

UNWRAP = re.compile(r"^(std|core)::(option::Option|result::Result)::<[^>]*>::(unwrap|expect|unwrap_err|expect_err|unwrap_unchecked|unwrap_err_unchecked)$")
PANIC_FN = re.compile(r"^(core|std)::(panicking|rt)::")

FAMILIES = [
    ("todo", {"todo", "unimplemented"}),
    ("unreachable", {"unreachable"}),
    ("debug_assert", {"debug_assert", "debug_assert_eq", "debug_assert_ne"}),
    ("assert", {"assert", "assert_eq", "assert_ne"}),
    ("panic", {"panic"}),
]
STD_INTERNAL = re.compile(r"^\$crate::|^core::|^std::")


def macro_names(macros):
    return [m.split(":", 1)[1] if ":" in m else m for m in macros]


def panic_family(macros):
    names = macro_names(macros)
    base = [n.rsplit("::", 1)[-1] for n in names]
    fam = None
    for f, members in FAMILIES:
        if any(b in members for b in base):
            fam = f
            break
    user = [n for n in names if not STD_INTERNAL.match(n)]
    outer = user[-1] if user else (names[-1] if names else "")
    return fam or "panic-call", outer


def short(ck: str) -> str:
    ck = re.sub(r"::<[^:]*>(?=::|$)", "", ck)
    ck = re.sub(r"<[^<>]*>", "", ck)
    parts = ck.split("::")
    return "::".join(parts[-2:]) if len(parts) >= 2 else ck


def producer(e, depth=0) -> str:
    """Coarse description of where a value comes from (for unwrap/expect keys)."""
    if depth > 6 or not isinstance(e, tuple):
        return "?"
    tag = e[0]
    if tag == "call":
        name = short(e[1])
        # adaptor chains: describe by the adaptor and its source
        if name.split("::")[-1] in ("as_ref", "as_mut", "as_deref", "copied", "cloned", "clone", "map", "ok", "transpose", "flatten", "take", "and_then", "into") and e[2]:
            return producer(e[2][0], depth + 1)
        return name + "()"
    if tag == "place":
        fields = [p for p in e[2] if p.startswith(".")]
        base = producer(e[1], depth + 1)
        if fields:
            return (base + "" if base in ("param", "local") else base) + "".join(fields[-2:])
        return base
    if tag == "ref":
        return producer(e[1], depth + 1)
    if tag == "param":
        return f"{e[2] or 'param'}"
    if tag == "upvar":
        return f"{e[1]}"
    if tag == "phi":
        ps = sorted({producer(x, depth + 1) for x in e[1]})
        return "|".join(ps[:3])
    if tag == "const":
        return "const"
    if tag == "agg":
        return "value"
    if tag == "cast":
        return producer(e[2], depth + 1)
    return tag


def is_fmt_internal(macros):
    names = macro_names(macros)
    return any("format_args" in n for n in names)


def failure_sites(F: Facts, crates=("cooklang", "cooklang_bindings"), include_generated=False):
    """Yield dicts: region, kind, detail, where, func, block."""
    for k in sorted(F.funcs):
        f = F.funcs[k]
        if f.crate not in crates:
            continue
        if f.kind.startswith(("Const", "AssocConst", "Static", "AnonConst", "InlineConst")):
            continue
        if f.generated and not include_generated:
            continue
        region = region_of(k)
        for i, t in f.calls():
            ck = callee_key(t)
            if ck is None:
                continue
            macros = t.get("macros", [])
            where = f"{f.file}:{t.get('line')}"
            if any("tracing::" in m for m in macros):
                continue
            if PANIC_FN.match(ck):
                fam, outer = panic_family(macros)
                base_outer = outer.rsplit("::", 1)[-1]
                yield dict(region=region, kind=fam, detail=base_outer or short(ck), where=where, func=k, block=i, callee=ck, macros=macros)
                continue
            m = UNWRAP.match(ck)
            if m:
                recv = resolve(f, t["args"][0]) if t.get("args") else ("unknown",)
                yield dict(region=region, kind=m.group(3).replace("_unchecked", "!unchecked"), detail=producer(recv), where=where,
                           func=k, block=i, callee=ck, macros=macros, expr=show(recv))
                continue
            if ck.endswith("hint::unreachable_unchecked"):
                yield dict(region=region, kind="unsafe", detail="unreachable_unchecked", where=where, func=k, block=i, callee=ck, macros=macros)
                continue
            c = t["callee"]
            if c.get("unsafe") and not is_fmt_internal(macros) and not macros:
                yield dict(region=region, kind="unsafe", detail=short(ck), where=where, func=k, block=i, callee=ck, macros=macros)
        # raw pointer dereferences
        for i, j, s in f.iter_stmts():
            if s["k"] != "assign" or s.get("macros"):
                continue
            places = [s["place"]]
            rv = s["rv"]
            if "place" in rv:
                places.append(rv["place"])
            for op in (rv.get("op"), rv.get("l"), rv.get("r"), rv.get("x")):
                if isinstance(op, dict):
                    p = op.get("copy") or op.get("move")
                    if p:
                        places.append(p)
            for p in places:
                if p["p"] and p["p"][0] == "*" and f.local_ty(p["l"]).startswith("*"):
                    yield dict(region=region, kind="unsafe", detail="raw-deref", where=f"{f.file}:{s.get('line')}", func=k, block=i, callee="", macros=[])


def group(sites):
    d = defaultdict(list)
    for s in sites:
        d[(s["region"], s["kind"], s["detail"])].append(s)
    return d
