"""C11 — aisle configuration parsing is total, duplicate-free and round-trips (partial).

Decided clauses:
  D1  totality: the C03 inventories restricted to what aisle::parse / aisle::write /
      AisleConf::ingredients_info reach;
  D2  duplicate pairing: each insertion into a "used" set is dominated by the not-found outcome
      of a lookup of the same key in the same set, the found outcome returns the duplicate
      error, and what is stored is the checked key (same trimming on both sides);
  D3  spans: calc_span builds Span::new(off, off + s.len()) with off the pointer distance of
      the slice from the input.
Not decided: the write/parse round trip, trimming results, lookup results."""
from __future__ import annotations

import harness
import c03
from facts import Facts, callee_key, region_of
from flow import resolve, resolve_place, leaves, show, walk
from cfgq import calls_to, region_calls_to, arg_expr, arg_leaves, aggregates, option_some_edges


def full(e):
    import flow
    return flow.show(e, -50)


def names_of(e):
    """callee short names (call and fn-item leaves) in an expression"""
    out = set()
    for l in leaves(e):
        if l.startswith("call:") or l.startswith("fn:"):
            out.add(l.split(":", 1)[1].rsplit("::", 1)[-1])
    return out


def run(chk: harness.Check):
    paths, th = harness.mir_facts("Q")
    F = Facts(paths)
    chk.explanation = (
        "D1: C03's failure-site, arithmetic and loop inventories restricted to the call-graph reach of aisle::parse, aisle::write and "
        "AisleConf::ingredients_info. D2: on the MIR of aisle::parse, each HashSet::insert into used_categories / used_names is dominated by a "
        "HashSet::get of the same key expression in the same set, is unreachable from its found outcome (which builds the Duplicate* error), and the "
        "names/categories that are stored have the same trimming in their lineage as the keys that were checked. D3: calc_span returns "
        "Span::new(offset_from(s.as_ptr(), input.as_ptr()), that + s.len()). D4: ingredients_info builds every IngredientInfo with common_name = names.first() of the iterated line, category = the enclosing category's name, and inserts it under the iterated name. D6: the comment marker `//` is searched from the left. D5: the format templates of aisle::write (decoded from MIR) put exactly the characters around category names and between names that aisle::parse strips and splits on, and end every line with a line feed. D7: no path builds an Ingredient without the not-empty outcome of an emptiness test taken after the comment was cut off. Necessary conditions; the write∘parse round trip itself is not decided.")
    chk.trusted = ["tables/panics.toml, narrow_arith.toml, progress.toml", "HashSet::get/insert semantics"]
    ents = []
    for s in ("cooklang::aisle::parse", "cooklang::aisle::write", "cooklang::aisle::AisleConf::ingredients_info", "cooklang::aisle::AisleConf::reverse"):
        if s in F.funcs:
            ents.append(s)
        else:
            chk.fail("anchor-missing", s, "", f"anchor-missing: {s} not found (aisle feature off?)")
    reach = F.reach(ents)
    regions = {region_of(k) for k in reach if k in F.funcs and F.funcs[k].crate == "cooklang" and not F.funcs[k].generated
               and (k.startswith("cooklang::aisle::") or k.startswith("cooklang::<aisle::") or k.startswith("cooklang::span::"))}
    chk.analysed = {"facts": th, "regions": sorted(regions)}
    n, _ = c03.d1_inventory(chk, F, pid="C11", only_regions=regions)
    chk.floor("C11.D1-inventory", "failure sites in the aisle module", n, 4)
    c03.d2_arith(chk, F, pid="C11", only_regions=regions)
    c03.d3_progress(chk, F, pid="C11", only_regions=regions)
    d2_duplicates(chk, F)
    d3_spans(chk, F)
    d4_lookup(chk, F)
    d5_writer_reader_tokens(chk, F)
    d6_comment(chk, F)
    d7_blank_after_comment(chk, F)


def d7_blank_after_comment(chk, F):
    """'comments and blank lines are ignored': an ingredient line is only read from a line that is non-empty AFTER the comment was cut
    off and the rest trimmed — no path reaches the construction of an aisle Ingredient without the not-empty outcome of an `is_empty`
    test whose subject derives from the comment-stripped line (a test of the raw line does not count: `// note` is not blank)."""
    from cfgq import path_without_success
    R = "C11.D7-blank-after-comment"
    p = F.funcs.get("cooklang::aisle::parse")
    if p is None:
        chk.fail("anchor-missing", "aisle::parse", "", "anchor-missing: aisle::parse not found")
        return
    markers = {b for b, t in p.calls() if any((a.get("const") or {}).get("str") == "//" for a in t.get("args", []))}
    from cfgq import must_pass
    heads = [t.get("target") for b, t in p.calls() if (callee_key(t) or "").endswith("Iterator>::next") and "Lines" in (callee_key(t) or "")]
    heads = [h for h in heads if h is not None]
    tests = {}
    for b, t in p.calls():
        if (callee_key(t) or "").endswith("<impl str>::is_empty") and not t["dest"]["p"]:
            e = arg_expr(p, t, 0)
            # the subject mentions the stripped line, and within one iteration the test comes after the comment was cut off
            # (the line variable is re-assigned in place, so lineage alone cannot tell a test of the raw line from one of the rest)
            if any(n[0] == "call" and n[3] in markers for n in walk(e)) and heads and must_pass(p, heads, list(markers), [b]):
                tests[t["dest"]["l"]] = False
    chk.floor(R, "line loop of aisle::parse", len(heads), 1, f"{p.file}:{p.line}")
    sites = [(i, s) for ff, i, s, d in aggregates(F, p.key, "aisle::Ingredient") if ff is p]
    chk.floor(R, "Ingredient constructions in aisle::parse", len(sites), 1, f"{p.file}:{p.line}")
    chk.floor(R, "emptiness tests of the comment-stripped line", len(tests), 1, f"{p.file}:{p.line}")
    for i, s in sites:
        w = path_without_success(p, i, tests) if tests else [i]
        lines = sorted({p.blocks[x]["term"].get("line") for x in (w or []) if p.blocks[x]["term"].get("line")})
        chk.expect(w is None, R, "parse|ingredient line", f"{p.file}:{s.get('line')}",
                   f"an ingredient line can be read from a line that was not tested to be non-empty after its comment was removed (path through lines {lines[-8:]}): "
                   "a comment-only line becomes an ingredient with an empty name",
                   sample=f"{p.file}:{s.get('line')}: Ingredient built only under !stripped_line.is_empty()")


def d6_comment(chk, F):
    """A comment runs from the FIRST `//` of a line to its end: whatever aisle::parse does with the marker "//" is a
    forward search (split_once / find / split / splitn), never a search from the right — otherwise comment text containing
    a second `//` (a URL) leaks into names and hides duplicates."""
    p = F.funcs.get("cooklang::aisle::parse")
    if p is None:
        chk.fail("anchor-missing", "aisle::parse", "", "anchor-missing: aisle::parse not found")
        return
    uses = []
    for g in F.region_funcs(p.key):
        for b, t in g.calls():
            for a in t.get("args", []):
                c = a.get("const") or {}
                if c.get("str") == "//":
                    uses.append((g, b, (callee_key(t) or "").rsplit("::", 1)[-1]))
    chk.floor("C11.D6-comment", "uses of the comment marker", len(uses), 1, f"{p.file}:{p.line}")
    for g, b, m in uses:
        chk.expect(m in ("split_once", "find", "split", "splitn", "split_terminator", "contains", "starts_with"), "C11.D6-comment", f"parse|{m}(\"//\")", g.where(b),
                   f"the comment marker is located with `{m}`: a comment must start at the first `//` of the line",
                   sample=f"{g.where(b)}: {m}(\"//\")")


def d5_writer_reader_tokens(chk, F):
    """write() and parse() are siblings over one concrete syntax: the literal text the writer puts around a category
    name and between the names of a line must be exactly what the parser strips and splits on, every name of a line
    is written, and each line ends with a line feed (decoded from the format_args! templates in MIR)."""
    import fmtq
    from flow import show, leaves
    w = F.funcs.get("cooklang::aisle::write") or next((g for g in F.find("aisle::write") if not g.is_closure()), None)
    p = F.funcs.get("cooklang::aisle::parse")
    if w is None or p is None:
        chk.fail("anchor-missing", "aisle::write/parse", "", "anchor-missing: aisle::write or aisle::parse not found")
        return
    # reader side
    rd = {}
    for g in F.region_funcs(p.key):
        for b, t in g.calls():
            k = (callee_key(t) or "").rsplit("::", 1)[-1]
            for a in t.get("args", []):
                c = a.get("const") or {}
                if "char" in c and k in ("starts_with", "ends_with", "split", "contains", "strip_prefix", "strip_suffix"):
                    rd.setdefault(k, set()).add(c["char"])
    open_c = rd.get("starts_with", set()) | rd.get("strip_prefix", set())
    close_c = rd.get("ends_with", set()) | rd.get("strip_suffix", set())
    sep_c = rd.get("split", set())
    ok = len(open_c) == 1 and len(close_c) == 1 and len(sep_c) == 1
    chk.expect(ok, "C11.D5-syntax-agreement", "parse|delimiters", f"{p.file}:{p.line}",
               f"aisle::parse no longer has exactly one opening, closing and separator character (found {sorted(open_c)}, {sorted(close_c)}, {sorted(sep_c)})",
               sample=f"{p.file}:{p.line}: parse uses {sorted(open_c)} name {sorted(close_c)}, names split on {sorted(sep_c)}")
    if not ok:
        return
    o, c, sp = next(iter(open_c)), next(iter(close_c)), next(iter(sep_c))
    sites = []
    for g in F.region_funcs(w.key):
        for st in fmtq.format_sites(g):
            sites.append((g, st))
    chk.floor("C11.D5-syntax-agreement", "format sites in aisle::write", len(sites), 4, f"{w.file}:{w.line}")
    def field_of(e):
        txt = show(e, -50)
        return "category" if txt.rstrip(")").endswith(".name") else ("name" if ".names" in txt else "?")
    cat = [(g, st) for g, st in sites if any(tk[0] == "arg" and field_of(tk[1]) == "category" for tk in st["tokens"])]
    nam = [(g, st) for g, st in sites if any(tk[0] == "arg" and field_of(tk[1]) == "name" for tk in st["tokens"])]
    lits = [(g, st) for g, st in sites if all(tk[0] == "lit" for tk in st["tokens"])]
    okc = len(cat) == 1 and fmtq.render(cat[0][1]["tokens"], lambda e: "") == f"{o}{{}}{c}\n"
    chk.expect(okc, "C11.D5-syntax-agreement", "write|category line", f"{w.file}:{cat[0][1]['line'] if cat else w.line}",
               f"a category must be written as `{o}name{c}` + line feed, which is what parse() recognises; write() emits "
               f"{[fmtq.render(st['tokens'], lambda e: '') for _, st in cat]}", sample=f"{w.file}: category written as {o}{{}}{c}\\n")
    forms = sorted(fmtq.render(st["tokens"], lambda e: "") for _, st in nam)
    okn = forms == sorted(["{}", sp + "{}"]) or forms == sorted(["{}" + sp]) or forms == sorted(["{}", "{}" + sp])
    chk.expect(okn, "C11.D5-syntax-agreement", "write|names of a line", f"{w.file}:{nam[0][1]['line'] if nam else w.line}",
               f"the names of a line must be written verbatim, separated by `{sp}` (the character parse() splits on); write() emits {forms}",
               sample=f"{w.file}: names written as {forms}")
    # every name is written: the first from iter.next(), the rest from a loop over the same iterator
    srcs = set()
    for g, st in nam:
        for tk in st["tokens"]:
            if tk[0] == "arg":
                srcs |= {l for l in leaves(tk[1]) if l.startswith("call:") and ("next" in l or "iter" in l or "into_iter" in l)}
    chk.expect(any(l.endswith("<impl [T]>::iter") or "into_iter" in l for l in srcs) and any("next" in l for l in srcs),
               "C11.D5-syntax-agreement", "write|all names", f"{w.file}:{w.line}",
               "the written names do not come from an iteration over ingredient.names", sample=f"{w.file}: names come from ingredient.names.iter()")
    # what is printed is the stored name itself: no call that could alter it (trim, to_lowercase, replace ..) in the placeholder's lineage
    PASS = ("Iterator>::next", "<impl [T]>::iter", "IntoIterator>::into_iter", "Deref>::deref", "Option::<T>::unwrap", "<impl [T]>::first", "<impl [T]>::split_first",
            "AsRef<T>>::as_ref", "Option::<T>::expect", "Iterator::next")
    for g, st in cat + nam:
        for tk in st["tokens"]:
            if tk[0] != "arg":
                continue
            altered = sorted({l[5:].rsplit("::", 1)[-1] for l in leaves(tk[1]) if l.startswith("call:") and not l[5:].endswith(PASS)})
            chk.expect(not altered, "C11.D5-syntax-agreement", f"write|verbatim {field_of(tk[1])}", f"{w.file}:{st['line']}",
                       f"write() prints a {field_of(tk[1])} name after passing it through {altered}: parse() keeps category names verbatim and trims ingredient names itself, "
                       "so a rewritten name no longer parses back to the same configuration (`[ dairy ]`)",
                       sample=f"{w.file}:{st['line']}: the stored {field_of(tk[1])} name is printed as it is")
    okl = len(lits) >= 2 and all(fmtq.render(st["tokens"], lambda e: "") == "\n" for _, st in lits)
    chk.expect(okl, "C11.D5-syntax-agreement", "write|line ends", f"{w.file}:{w.line}",
               f"ingredient lines and categories must end with a line feed; write() emits the literals {[fmtq.render(st['tokens'], lambda e: '') for _, st in lits]}",
               sample=f"{w.file}: {len(lits)} bare line feeds (end of names line, end of category)")


def d4_lookup(chk, F):
    """Looking a name up returns its category and the FIRST name of its line: every IngredientInfo built by
    ingredients_info takes common_name from `names.first()` (or names[0]) of the line being iterated, category from the
    enclosing category's name, and is inserted under the iterated name itself."""
    from cfgq import aggregates, calls_to
    from flow import resolve, leaves, show
    fs = [g for g in F.find("aisle::AisleConf::ingredients_info") if not g.is_closure()]
    if len(fs) != 1:
        chk.fail("anchor-missing", "ingredients_info", "", "anchor-missing: AisleConf::ingredients_info not found")
        return
    f = fs[0]
    aggs = aggregates(F, f.key, "aisle::IngredientInfo")
    chk.floor("C11.D4-lookup", "IngredientInfo constructions", len(aggs), 1, f"{f.file}:{f.line}")
    WALK = ("IntoIterator>::into_iter", "Iterator>::next", "Deref>::deref", "<impl [T]>::iter", "Index<I>>::index", "SliceIndex<[T]>>::index")
    for ff, i, st, d in aggs:
        where = f"{ff.file}:{st.get('line')}"
        e = resolve(ff, d["common_name"])
        txt = show(e, -50)
        calls = [l[5:] for l in leaves(e) if l.startswith("call:")]
        extra = [c for c in calls if not any(c.endswith(w) for w in WALK) and not c.endswith("<impl [T]>::first")]
        first = any(c.endswith("<impl [T]>::first") for c in calls) or ("index" in txt and "lit:0" in txt)
        ok = first and not extra and ".names" in txt
        chk.expect(ok, "C11.D4-lookup", "ingredients_info|common_name", where,
                   f"common_name must be the first name of the line (names.first()); it is {txt[:140]}" + (f" — through {extra[:3]}" if extra else ""),
                   sample=f"{where}: common_name = igr.names.first()")
        e = resolve(ff, d["category"])
        txt = show(e, -50)
        ok = ".categories" in txt and txt.rstrip(")").endswith(".name") and ".ingredients" not in txt
        chk.expect(ok, "C11.D4-lookup", "ingredients_info|category", where, f"category must be the name of the enclosing category; it is {txt[:120]}",
                   sample=f"{where}: category = cat.name")
        e = resolve(ff, d["name"])
        ntxt = show(e, -50)
        ok = ".names" in ntxt and not any(c.endswith("first") for c in [l for l in leaves(e)])
        chk.expect(ok, "C11.D4-lookup", "ingredients_info|name", where, f"name must be the iterated name of the line; it is {ntxt[:120]}",
                   sample=f"{where}: name = each of igr.names")
    ins = [(b, t) for b, t in calls_to(f, "::insert") if len(t.get("args", [])) == 3]
    chk.floor("C11.D4-lookup", "map inserts", len(ins), 1, f"{f.file}:{f.line}")
    for b, t in ins:
        k = show(resolve(f, t["args"][1]), -50)
        v = resolve(f, t["args"][2])
        ok = ".names" in k and "first" not in k and v[0] == "agg"
        chk.expect(ok, "C11.D4-lookup", "ingredients_info|key", f.where(b), f"the map key must be the iterated name; it is {k[:120]}",
                   sample=f"{f.where(b)}: map.insert(*name, info)")


def d2_duplicates(chk, F):
    f = F.funcs.get("cooklang::aisle::parse")
    if f is None:
        return
    inserts = calls_to(f, "HashSet::<T, S, A>::insert")
    gets = calls_to(f, "HashSet::<T, S, A>::get") + calls_to(f, "HashSet::<T, S, A>::contains")
    chk.floor("C11.D2-duplicates", "used-set inserts", len(inserts), 2, f"{f.file}:{f.line}")
    for b, t in inserts:
        setname = _recv_local(f, t["args"][0])
        key = arg_expr(f, t, 1)
        ktxt = full(key)
        match = None
        for gb, gt in gets:
            if _recv_local(f, gt["args"][0]) == setname and full(arg_expr(f, gt, 1)) == ktxt:
                match = (gb, gt)
        where = f.where(b)
        if match is None:
            chk.fail("C11.D2-duplicates", f"parse|{setname}|lookup", where,
                     f"the key inserted into `{setname}` is not the key that was looked up in it before (different expression or no lookup): "
                     "a duplicate can slip through or a non-duplicate be refused")
            continue
        gb, gt = match
        somes = [tgt for _, tgt in option_some_edges(f, gt["dest"]["l"])]
        ok = f.node_dominates(gb, b) and bool(somes) and all(b not in f.reach_from(s) for s in somes)
        chk.expect(ok, "C11.D2-duplicates", f"parse|{setname}|pairing", where,
                   f"the insert into `{setname}` is not confined to the not-found outcome of the lookup of the same key",
                   sample=f"{where}: insert into {setname} only after get(same key) returned None")
        # every iteration of the checking loop that does not return registers its key
        from c03 import acyclic_without
        heads = [hb for hb, ht in f.calls() if (callee_key(ht) or "").endswith(("Iterator>::next", "Iterator::next", "::next"))
                 and f.node_dominates(hb, b) and hb in f.reach_from(b)]
        # innermost loop around the insert, and only when it is a dedicated (nested) checking loop
        inner = [h for h in heads if all(f.node_dominates(o, h) for o in heads)]
        if len(heads) >= 2 and inner:
            h = inner[0]
            body = sorted(x for x in f.live if f.node_dominates(h, x) and h in f.reach_from(x))
            for scc in [body]:
                okc, cyc = acyclic_without(f, scc, {b})
                lines = sorted({f.blocks[x]["term"].get("line") for x in (cyc or []) if f.blocks[x]["term"].get("line")})
                chk.expect(okc, "C11.D2-duplicates", f"parse|{setname}|every key registered", where,
                           f"an iteration of the loop that checks `{setname}` can continue without inserting its key (through lines {lines}): "
                           "such names are stored but never compared, so they may repeat",
                           sample=f"{where}: every iteration of the check loop reaches the insert into {setname}")
        # found outcome builds the duplicate error
        errs = [i for ff, i, s, d in aggregates(F, f.key, "aisle::AisleConfError") if s["rv"]["variant"].startswith("Duplicate") and ff is f]
        ok = any(any(e in f.reach_from(s) for e in errs) for s in somes)
        chk.expect(ok, "C11.D2-duplicates", f"parse|{setname}|error", where,
                   f"finding the key in `{setname}` no longer leads to a Duplicate* error", sample=f"{where}: found → AisleConfError::Duplicate*")
        # what is stored agrees with what is checked: same trimming functions in the lineage
        ktrim = {n for n in names_of(key) if n.startswith("trim")}
        if setname == "used_names":
            stored = [d["names"] for ff, i, s, d in aggregates(F, f.key, "aisle::Ingredient") if ff is f]
            for op in stored:
                e = resolve(f, op)
                strim = {n for n in names_of(e) if n.startswith("trim")}
                # a vector filled by pushes: the stored values are what is pushed into it
                vname = _named_source(f, op)
                pushed = [pt for pb, pt in calls_to(f, "Vec::push") if vname and _recv_local(f, pt["args"][0]) == vname]
                if pushed and not any(l.endswith("Iterator::collect") for l in leaves(e)):
                    strim = set()
                    for pt in pushed:
                        strim |= {n for n in names_of(arg_expr(f, pt, 1)) if n.startswith("trim")}
                chk.expect(ktrim == strim and bool(ktrim), "C11.D2-duplicates", "parse|used_names|stored-vs-checked", where,
                           f"ingredient names are checked for duplicates after {sorted(ktrim) or 'no trimming'} but stored after {sorted(strim) or 'no trimming'}: "
                           "two names that are equal once stored may not be detected",
                           sample=f"{where}: checked key and stored names both go through {sorted(ktrim)}")
        else:
            # every Category built anywhere in parse (closures included): a category created on another path with another
            # name (e.g. an implicit unnamed one) never went through the duplicate check
            stored = [(ff, d["name"]) for ff, i, s, d in aggregates(F, f.key, "aisle::Category")]
            for ff, op in stored:
                e = resolve(ff, op)
                chk.expect(full(e) == ktxt, "C11.D2-duplicates", "parse|used_categories|stored-vs-checked", where,
                           "the category name that is stored is not the expression that was checked for duplicates",
                           sample=f"{where}: Category.name is the checked key")


def _named_source(f, op):
    """debug name of the variable an operand was moved/copied from (through temporaries)"""
    pl = op.get("move") or op.get("copy")
    for _ in range(6):
        if pl is None or pl["p"]:
            return None
        if f.local_name(pl["l"]):
            return f.local_name(pl["l"])
        ds = f.defs.get(pl["l"], [])
        if len(ds) != 1 or ds[0][0] != "stmt" or ds[0][3]["rv"]["k"] != "use":
            return None
        o = ds[0][3]["rv"]["op"]
        pl = o.get("move") or o.get("copy")
    return None


def _recv_local(f, op):
    from c16 import recv_name
    return recv_name(f, op)


def d3_spans(chk, F):
    cl = [g for g in F.region_funcs("cooklang::aisle::parse") if g.key != "cooklang::aisle::parse"]
    hits = []
    for g in cl:
        e = resolve_place(g, {"l": 0, "p": []})
        if e[0] == "call" and e[1].endswith("Span::new"):
            hits.append((g, e))
    if len(hits) != 1:
        chk.fail("anchor-missing", "calc_span", "", f"anchor-missing: expected one span-building closure in aisle::parse, found {len(hits)}")
        return
    g, e = hits[0]
    a0, a1 = e[2]
    t0, t1 = full(a0), full(a1)
    ok0 = "offset_from" in t0 and "as_ptr(&(*s))" in t0 and "input" in t0 and t0.index("as_ptr(&(*s))") < t0.index("input")
    ok1 = t0 in t1 and "len(&(*s))" in t1 and "Add" in t1
    chk.expect(ok0 and ok1, "C11.D3-spans", "calc_span", f"{g.file}:{g.line}",
               f"calc_span must return Span::new(off, off + s.len()) with off = s.as_ptr().offset_from(input.as_ptr()); it returns Span::new({t0[:90]}, {t1[:90]})",
               sample=f"{g.file}:{g.line}: Span::new(off, off + s.len()), off = s.as_ptr() − input.as_ptr()")
    # every span an error carries IS the span of one sub-slice of the input: it comes straight from calc_span, and no other
    # Span is built in aisle::parse (a span assembled from a start and some other length can leave the input)
    from cfgq import aggregates
    others = []
    for h in F.region_funcs("cooklang::aisle::parse"):
        if h is g:
            continue
        for b, t in h.calls():
            k = callee_key(t) or ""
            if k.endswith(("span::Span::new", "span::Span::pos")) or ("span::Span" in k and k.endswith("::from")):
                others.append(h.where(b))
    chk.expect(not others, "C11.D3-spans", "parse|spans only from calc_span", others[0] if others else f"{g.file}:{g.line}",
               f"aisle::parse builds a Span outside calc_span ({others[:2]}): only calc_span's pointer-offset formula keeps an error span inside the input",
               sample="no Span construction in aisle::parse outside calc_span")
    errs = aggregates(F, "cooklang::aisle::parse", "aisle::AisleConfError")
    chk.floor("C11.D3-spans", "error constructions in aisle::parse", len(errs), 4)
    for ff, i, st, d in errs:
        for fld, op in d.items():
            if "span" not in fld:
                continue
            e = resolve(ff, op)
            ok = e[0] == "call" and (e[1] == g.key or "call_once" in e[1] or "Fn::call" in e[1]) or (e[0] == "call" and g.key in leaves(e) and False)
            if not ok:
                ok = e[0] == "call" and any(l == "call:" + g.key for l in leaves(e)) and e[1] == g.key
            chk.expect(ok, "C11.D3-spans", f"parse|{st['rv']['variant']}.{fld}", f"{ff.file}:{st.get('line')}",
                       f"the {fld} of AisleConfError::{st['rv']['variant']} is {full(e)[:100]}, not the result of calc_span(sub-slice)",
                       sample=f"{ff.file}:{st.get('line')}: {fld} = calc_span(..)")
