"""Shape (DESIGN.md §3): canonical form of small straight-line float expressions as rational
functions with exact rational coefficients.  Pure symbolic rewriting (commutativity,
associativity, distribution): no input value is ever chosen."""
from __future__ import annotations

from fractions import Fraction


class Poly:
    __slots__ = ("t",)

    def __init__(self, terms=None):
        self.t = {k: v for k, v in (terms or {}).items() if v != 0}

    @staticmethod
    def const(c):
        return Poly({(): Fraction(c)})

    @staticmethod
    def var(name):
        return Poly({((name, 1),): Fraction(1)})

    def __add__(self, o):
        d = dict(self.t)
        for k, v in o.t.items():
            d[k] = d.get(k, 0) + v
        return Poly(d)

    def __neg__(self):
        return Poly({k: -v for k, v in self.t.items()})

    def __sub__(self, o):
        return self + (-o)

    def __mul__(self, o):
        d = {}
        for k1, v1 in self.t.items():
            for k2, v2 in o.t.items():
                m = dict(k1)
                for n, p in k2:
                    m[n] = m.get(n, 0) + p
                k = tuple(sorted(m.items()))
                d[k] = d.get(k, 0) + v1 * v2
        return Poly(d)

    def __eq__(self, o):
        return self.t == o.t

    def is_zero(self):
        return not self.t

    def __repr__(self):
        if not self.t:
            return "0"
        parts = []
        for k, v in sorted(self.t.items()):
            mon = "*".join(n if p == 1 else f"{n}^{p}" for n, p in k)
            parts.append(f"{v}{'*' + mon if mon else ''}")
        return " + ".join(parts)


class Rat:
    __slots__ = ("n", "d")

    def __init__(self, n, d=None):
        self.n = n
        self.d = d if d is not None else Poly.const(1)

    def __add__(self, o):
        return Rat(self.n * o.d + o.n * self.d, self.d * o.d)

    def __sub__(self, o):
        return Rat(self.n * o.d - o.n * self.d, self.d * o.d)

    def __mul__(self, o):
        return Rat(self.n * o.n, self.d * o.d)

    def __truediv__(self, o):
        return Rat(self.n * o.d, self.d * o.n)

    def same(self, o):
        """Equality as rational functions (cross-multiplication)."""
        return (self.n * o.d - o.n * self.d).is_zero() and not self.d.is_zero() and not o.d.is_zero()

    def __repr__(self):
        return f"({self.n}) / ({self.d})"


def from_expr(e, varname, depth=0):
    """MIR expression (flow.resolve) -> Rat; `varname(node)` names leaves (returns None if not a leaf)."""
    if depth > 60:
        raise ValueError("expression too deep")
    nm = varname(e)
    if nm is not None:
        return Rat(Poly.var(nm))
    t = e[0]
    if t == "const":
        c = e[1]
        for k in ("f64", "int", "bits"):
            if k in c:
                return Rat(Poly.const(Fraction(c[k]) if k != "f64" else Fraction(float(c[k])).limit_denominator(10**12)))
        raise ValueError("non-numeric constant")
    if t == "bin":
        op = e[1].replace("WithOverflow", "")
        a, b = from_expr(e[2], varname, depth + 1), from_expr(e[3], varname, depth + 1)
        if op == "Add":
            return a + b
        if op == "Sub":
            return a - b
        if op == "Mul":
            return a * b
        if op == "Div":
            return a / b
        raise ValueError("operator " + op)
    if t == "un" and e[1] == "Neg":
        return Rat(Poly.const(0)) - from_expr(e[2], varname, depth + 1)
    if t in ("cast",):
        return from_expr(e[2], varname, depth + 1)
    if t == "ref":
        return from_expr(e[1], varname, depth + 1)
    if t == "place" and all(p == "*" for p in e[2]):
        return from_expr(e[1], varname, depth + 1)
    raise ValueError("not arithmetic: " + t)
