"""C15 — recipes survive serialization.

Decided clause: a serde derive/attribute *symmetry lint* over every type reachable from
Recipe<Servings, ScalableValue> and Recipe<Scaled, Value>.  Each rule is a known way in which
a derived Serialize/Deserialize pair stops round-tripping through JSON.  Not decided: float
formatting, byte identity, behaviour of serde_json/serde_yaml themselves."""
from __future__ import annotations

import json
import os
import re
import tomllib

import harness
from facts import Facts, norm, callee_key, callee_def
from typestr import type_names, split_generic

ROOTS = ["cooklang::model::Recipe", "cooklang::scale::Servings", "cooklang::scale::Scaled",
         "cooklang::quantity::ScalableValue", "cooklang::quantity::Value"]

STRINGY_KEYS = {"String", "std::string::String", "&str", "str", "char", "bool", "u8", "u16", "u32", "u64", "u128", "usize", "i8", "i16", "i32",
                "i64", "i128", "isize", "std::sync::Arc<str>", "std::borrow::Cow<str>", "Arc<str>", "Cow<str>"}


def attr_map(items):
    """['tag = "type"', 'flatten', 'rename(serialize = "a")'] -> dict name -> value string (or True)"""
    d = {}
    for it in items:
        it = it.strip()
        m = re.match(r"^([a-z_]+)\s*=\s*(.*)$", it)
        if m:
            d[m.group(1)] = m.group(2).strip().strip('"')
            continue
        m = re.match(r"^([a-z_]+)\s*\((.*)\)$", it)
        if m:
            d[m.group(1)] = "(" + m.group(2) + ")"
            continue
        d[it] = True
    return d


def rename(name, rule):
    if not rule or rule is True:
        return name
    words = re.findall(r"[A-Z]?[a-z0-9]+|[A-Z]+(?![a-z])", name) if not "_" in name else name.split("_")
    words = [w.lower() for w in words if w]
    if not words:
        return name
    if rule == "camelCase":
        return words[0] + "".join(w.capitalize() for w in words[1:])
    if rule == "PascalCase":
        return "".join(w.capitalize() for w in words)
    if rule == "snake_case":
        return "_".join(words)
    if rule == "SCREAMING_SNAKE_CASE":
        return "_".join(words).upper()
    if rule == "kebab-case":
        return "-".join(words)
    if rule == "lowercase":
        return "".join(words)
    if rule == "UPPERCASE":
        return "".join(words).upper()
    return name


def run(chk: harness.Check):
    paths, th = harness.mir_facts("Q")
    F = Facts(paths)
    _FACTS["F"] = F
    spath, _ = harness.syn_facts()
    with open(spath) as fh:
        syn = json.load(fh)
    with open(os.path.join(harness.VERIF, "tables", "serde.toml"), "rb") as fh:
        tab = tomllib.load(fh)
    allow = {(a["type"], a["rule"], a.get("field", "")): a for a in tab.get("allow", [])}
    used = set()

    chk.explanation = (
        "Serde symmetry lint over the closure of types reachable (through field types, resolved by the compiler) from "
        "Recipe<Servings, ScalableValue> and Recipe<Scaled, Value>: derive pairing, one-sided attributes, skip/skip_serializing_if "
        "without default, internal tagging over non-map variants, flatten with deny_unknown_fields or key collisions, untagged "
        "ambiguity, duplicate serialized names, tag/field collisions, map fields with non-string keys, nested Options, borrowed "
        "string fields, hand-written impls. Attributes are read from the syntax tree of the current tree (they are absent from HIR). "
        "Each rule is a necessary condition for `deserialize(serialize(r)) == r` with byte-identical re-serialization; the equality itself is not decided.")
    chk.trusted = ["serde derive output for symmetric attributes", "serde_json / serde_yaml behaviour", "bitflags' serde feature"]
    if syn["errors"]:
        chk.fail("anchor-missing", "synfacts", "", f"syntax extraction failed: {syn['errors'][:2]}")
        return
    items = {}
    for it in syn["items"]:
        if it["crate"] == "cooklang" and it["kind"] in ("struct", "enum"):
            items[f"cooklang::{it['module']}::{it['name']}" if it["module"] else f"cooklang::{it['name']}"] = it
    bitflags_items = [it for it in syn["items"] if it["crate"] == "cooklang" and it["kind"] == "bitflags"]
    manual = [it for it in syn["items"] if it["crate"] == "cooklang" and it["kind"] == "manual_impl"]

    # ---- type reachability on compiler-resolved field types --------------------------------------
    def local_key(name):
        for cand in (name, "cooklang::" + name):
            if cand in F.adts:
                return cand
        return None

    reach = {}
    st = []
    for r in ROOTS:
        if r not in F.adts:
            chk.fail("anchor-missing", r, "", f"anchor-missing: root type {r} not found")
        else:
            st.append((r, [r.split("::")[-1]]))
    foreign = set()
    while st:
        k, trail = st.pop()
        if k in reach:
            continue
        reach[k] = trail
        a = F.adts[k]
        it = items.get(k)
        for v in a["variants"]:
            for fld in v["fields"]:
                # payloads marked #[serde(skip)] are not part of the serialized form
                if it is not None and _field_skipped(it, v["name"], fld["name"]):
                    continue
                ty = norm(fld["ty"])
                for nm in type_names(ty):
                    lk = local_key(nm)
                    if lk:
                        if lk not in reach:
                            st.append((lk, trail + [f"{fld['name']}: {nm.split('::')[-1]}"]))
                    elif "::" in nm and not nm.startswith(("std::", "core::", "alloc::")):
                        foreign.add(nm)
    chk.analysed = {"facts": th, "reachable_types": sorted(reach), "foreign_types": sorted(foreign), "syn_items": len(items)}
    chk.floor("C15.reach", "reachable local types", len(reach), 20)
    manual_eq(chk, F, reach)

    def judge(rule, tkey, field, ok, where, msg, sample=None):
        key = f"{tkey}|{field}" if field else tkey
        if ok:
            chk.ok(rule, key, sample or where)
            return
        a = allow.get((tkey, rule, field))
        if a is not None:
            used.add((tkey, rule, field))
            if a.get("finding"):
                chk.fail(rule, key, where, msg + f" — {a['reason']}")
            else:
                chk.ok(rule, key, f"{where}: reviewed exception — {a['reason']}")
        else:
            chk.fail(rule, key, where, msg)

    for k in sorted(reach):
        a = F.adts[k]
        where = f"{a['file']}:{a['line']}"
        it = items.get(k)
        if it is None:
            # bitflags-generated struct?
            short = k.split("::")[-1]
            bf = [b for b in bitflags_items if re.search(r"struct\s+" + short + r"\b", b["body"])]
            if bf:
                body = bf[0]["body"]
                m = re.search(r"derive\s*\(([^)]*)\)", body)
                ders = {d.strip() for d in (m.group(1).split(",") if m else [])}
                judge("C15.S10-bitflags", k, "", ("Serialize" in ders) == ("Deserialize" in ders) and "Serialize" in ders, where,
                      f"bitflags type {k} does not derive both Serialize and Deserialize", sample=f"{where}: bitflags {short} derives {sorted(ders & {'Serialize', 'Deserialize'})}")
                continue
            if a["file"].startswith("/") or "macros" in a:
                continue
            chk.fail("anchor-missing", k, where, f"anchor-missing: no syntax item for reachable type {k}")
            continue
        cattr = attr_map(it["serde"])
        ders = {d.split("::")[-1] for d in it["derives"]}
        # S1 derive pairing
        judge("C15.S1-derive-pair", k, "", "Serialize" in ders and "Deserialize" in ders, where,
              f"{k} is part of a recipe but derives {sorted(ders & {'Serialize', 'Deserialize'}) or 'neither Serialize nor Deserialize'}",
              sample=f"{where}: derives Serialize + Deserialize")
        for mi in manual:
            if mi["name"].split("<")[0] == it["name"] and mi["module"] == it["module"]:
                judge("C15.S13-manual-impl", k, mi["trait"], False, f"{mi['file']}:{mi['line']}",
                      f"hand-written impl {mi['trait']} for {k}: symmetry cannot be decided from attributes")
        # container attributes
        _one_sided(judge, k, "", cattr, where)
        if "untagged" in cattr:
            judge("C15.S7-untagged", k, "", False, where, f"{k} is #[serde(untagged)]: variant shapes must be pairwise distinguishable (needs review)")
        tag = cattr.get("tag")
        content = cattr.get("content")
        ra = cattr.get("rename_all")
        if it["kind"] == "struct":
            _check_fields(chk, judge, F, items, k, "", it["fields"], cattr, where, local_key)
        else:
            names = []
            for v in it["variants"]:
                vattr = attr_map(v["serde"])
                _one_sided(judge, k, v["name"], vattr, where)
                vname = vattr.get("rename") if isinstance(vattr.get("rename"), str) and not str(vattr.get("rename")).startswith("(") else rename(v["name"], ra)
                names.append(vname)
                for al in [x for x in v["serde"] if x.startswith("alias")]:
                    names.append(attr_map([al])["alias"])
                if "skip" in vattr or "skip_serializing" in vattr or "skip_deserializing" in vattr or "other" in vattr:
                    judge("C15.S4-skip", k, v["name"], False, where, f"variant {k}::{v['name']} is skipped on one or both sides")
                # S5 internal tagging
                if tag and not content:
                    if v["shape"] == "tuple":
                        if len(v["fields"]) != 1:
                            judge("C15.S5-internal-tag", k, v["name"], False, where,
                                  f"internally tagged enum {k} has tuple variant {v['name']} with {len(v['fields'])} fields: cannot be (de)serialized")
                        else:
                            fty = v["fields"][0]["ty"]
                            ok = _is_maplike(items, it["module"], fty)
                            judge("C15.S5-internal-tag", k, v["name"], ok, where,
                                  f"internally tagged enum {k}: newtype variant {v['name']}({fty}) does not serialize as a map, the tag cannot be merged into it",
                                  sample=f"{where}: {v['name']}({fty}) is map-like under tag `{tag}`")
                    else:
                        chk.ok("C15.S5-internal-tag", f"{k}|{v['name']}", f"{where}: {v['shape']} variant under tag `{tag}`")
                    # tag/field collision
                    for fld in v["fields"]:
                        fattr = attr_map(fld["serde"])
                        fname = fattr.get("rename") if isinstance(fattr.get("rename"), str) else rename(fld["name"], attr_map(v["serde"]).get("rename_all"))
                        judge("C15.S8-names", k, f"{v['name']}.{fld['name']}~tag", fname != tag, where,
                              f"field {v['name']}.{fld['name']} of internally tagged enum {k} serializes under the tag key `{tag}`")
                if v["shape"] != "unit":
                    _check_fields(chk, judge, F, items, k, v["name"], v["fields"], vattr, where, local_key, container_attr=cattr)
            dup = sorted({n for n in names if names.count(n) > 1})
            judge("C15.S8-names", k, "variants", not dup, where, f"enum {k} has variants with the same serialized name: {dup}",
                  sample=f"{where}: variant names {names}")
    for ent in allow:
        if ent not in used:
            chk.notes.setdefault("stale_allow_entries", []).append("|".join(ent))


def manual_eq(chk, F, reach):
    """'deserializes to an EQUAL recipe' is judged by PartialEq: for the types of a recipe that implement it by hand (Number) the
    comparison must be a plain equality of the two sides' full value — `self.value() == other.value()` — i.e. reflexive on every
    value that can be serialized; a tolerance, a field subset or a sign-dependent test breaks equality after a round trip."""
    import c09
    from flow import show
    n = 0
    for k, g in sorted(F.funcs.items()):
        if g.crate != "cooklang" or g.generated or g.is_closure():
            continue
        if not (k.endswith("as std::cmp::PartialEq>::eq") and g.impl_trait is not None or " as std::cmp::PartialEq>::eq" in k):
            continue
        ty = k.split("<", 1)[1].split(" as ", 1)[0] if "<" in k else ""
        if not any(r.endswith(ty) or ty.endswith(r.split("::")[-1]) for r in reach):
            continue
        n += 1
        try:
            e = c09.return_expr(g)
        except Exception:
            e = ("unknown",)
        txt = show(e, -50)
        sides = [a for a in (e[2] if e[0] == "call" else ())]
        ok = e[0] == "call" and e[1].endswith("PartialEq for f64>::eq") or (e[0] == "bin" and e[1] == "Eq")
        if e[0] == "bin":
            sides = [e[2], e[3]]
        def side(x):
            t = show(x, -50)
            return ("self" in t, "other" in t, re.sub(r"\b(self|other)\b", "X", t))
        if ok and len(sides) == 2:
            a, b_ = side(sides[0]), side(sides[1])
            ok = a[2] == b_[2] and {a[0], b_[0]} == {True, False} or (a[2] == b_[2] and a[0] != a[1])
        else:
            ok = False
        chk.expect(ok, "C15.S10-manual-eq", f"{ty}|eq", f"{g.file}:{g.line}",
                   f"the hand-written PartialEq of {ty} is not `f(self) == f(other)` for one reading f of the value (it computes {txt[:120]}): values that "
                   "serialize identically may compare unequal, or equal recipes may serialize differently",
                   sample=f"{g.file}:{g.line}: {txt[:80]}")
    chk.notes["manual_partial_eq_impls_in_reach"] = n


def _field_skipped(it, variant, field):
    fields = it.get("fields")
    if it["kind"] == "enum":
        vs = [v for v in it["variants"] if v["name"] == variant]
        fields = vs[0]["fields"] if vs else []
    for f in fields or []:
        if f["name"] == field:
            am = attr_map(f["serde"])
            return "skip" in am
    return False


def _one_sided(judge, k, sub, am, where):
    pairs = [("serialize_with", "deserialize_with"), ("skip_serializing", "skip_deserializing"), ("into", "from")]
    for a, b in pairs:
        if (a in am) != (b in am):
            if a == "into" and "try_from" in am:
                continue
            judge("C15.S2-one-sided", k, f"{sub}:{a if a in am else b}", False, where,
                  f"{k}{('::' + sub) if sub else ''} has #[serde({a if a in am else b} ..)] without its counterpart: the two directions disagree")
    if "try_from" in am and "into" not in am and "from" not in am:
        judge("C15.S2-one-sided", k, f"{sub}:try_from", False, where, f"{k} has try_from without into")
    for nm in ("rename", "rename_all", "bound"):
        v = am.get(nm)
        if isinstance(v, str) and v.startswith("("):
            inner = attr_map([x.strip() for x in v[1:-1].split(",")])
            if inner.get("serialize") != inner.get("deserialize"):
                judge("C15.S2-one-sided", k, f"{sub}:{nm}", False, where,
                      f"{k}{('::' + sub) if sub else ''}: #[serde({nm}{v})] differs between serialize and deserialize")
    if "getter" in am or "remote" in am:
        judge("C15.S2-one-sided", k, f"{sub}:remote", False, where, f"{k}: remote/getter derive needs review")


def _is_maplike(items, module, ty):
    ty = ty.strip()
    base = re.sub(r"<.*", "", ty)
    cands = [k for k in items if k.endswith("::" + base)]
    same = [k for k in cands if items[k]["module"] == module]
    pick = same[0] if same else (cands[0] if len(cands) == 1 else None)
    if pick is None:
        return base in ("HashMap", "BTreeMap", "IndexMap", "Mapping") or base.endswith("Map")
    it = items[pick]
    if it["kind"] == "struct":
        return it["shape"] == "struct"
    am = attr_map(it["serde"])
    return "tag" in am  # internally / adjacently tagged enums serialize as maps


def _check_fields(chk, judge, F, items, k, variant, fields, owner_attr, where, local_key, container_attr=None):
    cattr = container_attr if container_attr is not None else owner_attr
    ra = owner_attr.get("rename_all") if variant else cattr.get("rename_all")
    if variant and not ra:
        # for enums, `rename_all` on the container renames variants, not fields; rename_all_fields renames fields
        ra = cattr.get("rename_all_fields")
    names = []
    has_default = "default" in owner_attr or "default" in cattr
    flattened = []
    for fld in fields:
        am = attr_map(fld["serde"])
        fkey = f"{variant + '.' if variant else ''}{fld['name']}"
        _one_sided(judge, k, fkey, am, where)
        ty = fld["ty"]
        if "skip" in am or "skip_serializing" in am or "skip_deserializing" in am:
            judge("C15.S4-skip", k, fkey, False, where, f"field {k}.{fkey} is skipped: its value does not survive a round trip")
            continue
        if "skip_serializing_if" in am:
            pred = str(am["skip_serializing_if"])
            dflt = am.get("default", True if has_default else None)
            if ty.startswith("Option<") and pred.endswith("is_none") and dflt in (None, True):
                ok, why = True, "Option skipped when None"
            elif dflt is None:
                ok, why = False, "skip_serializing_if without `default` on a non-Option type — deserialization of the shortened form fails"
            elif dflt is not True:
                ok, why = False, f"the omitted value is decided by `{pred}` but the value restored on deserialization by the custom default `{dflt}`: they cannot be shown to agree"
            elif pred.endswith(("::is_empty", "is_none")):
                ok, why = True, "empty collection skipped, Default::default() is empty"
            elif _is_default_predicate(judge, pred):
                ok, why = True, "predicate compares with Default::default()"
            else:
                ok, why = False, f"the skip predicate `{pred}` cannot be shown to hold exactly for Default::default()"
            judge("C15.S3-skip-if", k, fkey, ok, where,
                  f"field {k}.{fkey}: {why}",
                  sample=f"{where}: {fkey} skip_serializing_if — {why}")
        if "default" in am and not ("skip_serializing_if" in am):
            chk.ok("C15.S3-skip-if", f"{k}|{fkey}", f"{where}: {fkey} has default (accepts more, loses nothing)")
        if "with" in am:
            judge("C15.S2-one-sided", k, fkey + ":with", False, where, f"field {k}.{fkey} uses a custom `with` module: symmetry needs review")
        if "flatten" in am:
            flattened.append((fld, am))
        else:
            nm = am.get("rename") if isinstance(am.get("rename"), str) and not str(am.get("rename")).startswith("(") else rename(fld["name"], ra)
            names.append(nm)
            if "alias" in am:
                names.append(am["alias"])
        # S9 map keys
        for m in re.finditer(r"\b(HashMap|BTreeMap|IndexMap)<", ty):
            head, args = split_generic(ty[m.start():_match_close(ty, m.end() - 1) + 1])
            if args:
                kt = args[0].replace(" ", "")
                judge("C15.S9-map-keys", k, fkey, kt in STRINGY_KEYS, where,
                      f"field {k}.{fkey}: map with key type {kt} — JSON object keys must be strings",
                      sample=f"{where}: {fkey} map key {kt}")
        if re.search(r"\b(serde_yaml::)?Mapping\b", ty) or re.search(r"\bserde_yaml::Value\b", ty):
            judge("C15.S9-map-keys", k, fkey, False, where,
                  f"field {k}.{fkey}: {ty} allows non-string keys (numbers, null, sequences), which JSON cannot represent faithfully")
        # nested Option collapses
        if re.search(r"Option<\s*Option<", ty):
            judge("C15.S11-nested-option", k, fkey, False, where, f"field {k}.{fkey}: Option<Option<..>> collapses Some(None) to null")
        # borrowed strings cannot be deserialized from escaped JSON
        if re.search(r"&\s*('[a-z_]+\s+)?(str|\[u8\])", ty):
            judge("C15.S12-borrowed", k, fkey, False, where, f"field {k}.{fkey}: borrowed {ty} cannot be deserialized from JSON strings that need unescaping")
    # S6 flatten
    for fld, am in flattened:
        fkey = f"{variant + '.' if variant else ''}{fld['name']}"
        judge("C15.S6-flatten", k, fkey + ":deny", "deny_unknown_fields" not in cattr, where,
              f"{k} combines #[serde(flatten)] with deny_unknown_fields: deserialization always fails")
        base = re.sub(r"<.*", "", fld["ty"].strip())
        cands = [kk for kk in items if kk.endswith("::" + base)]
        own_mod = items[k]["module"] if k in items else ""
        same = [kk for kk in cands if items[kk]["module"] == own_mod]
        pick = same[0] if same else (cands[0] if len(cands) == 1 else None)
        if pick is None:
            judge("C15.S6-flatten", k, fkey + ":type", False, where, f"flattened field {k}.{fkey}: type {fld['ty']} not found / not a local struct or tagged enum")
            continue
        fit = items[pick]
        fam = attr_map(fit["serde"])
        keys = set()
        if fit["kind"] == "struct" and fit["shape"] == "struct":
            for ff in fit["fields"]:
                keys.add(rename(ff["name"], fam.get("rename_all")))
            okshape = True
        elif fit["kind"] == "enum" and "tag" in fam:
            keys.add(fam["tag"])
            if "content" in fam:
                keys.add(fam["content"])
            else:
                for v in fit["variants"]:
                    for ff in v["fields"]:
                        if v["shape"] == "struct":
                            keys.add(rename(ff["name"], attr_map(v["serde"]).get("rename_all") or fam.get("rename_all_fields")))
            okshape = True
        else:
            okshape = False
        judge("C15.S6-flatten", k, fkey + ":shape", okshape, where,
              f"flattened field {k}.{fkey}: {pick} does not serialize as a map (plain or untagged enum / tuple struct)",
              sample=f"{where}: {fkey} flattens {pick.split('::')[-1]} with keys {sorted(keys)}")
        clash = sorted(keys & set(names))
        judge("C15.S6-flatten", k, fkey + ":keys", not clash, where,
              f"flattened field {k}.{fkey}: keys {clash} collide with sibling fields of {k}",
              sample=f"{where}: flattened keys {sorted(keys)} disjoint from siblings {sorted(names)}")
    dup = sorted({n for n in names if names.count(n) > 1})
    judge("C15.S8-names", k, (variant + "." if variant else "") + "fields", not dup, where,
          f"{k}{('::' + variant) if variant else ''} has fields with the same serialized name: {dup}",
          sample=f"{where}: field names {names}")


_FACTS = {}


def _is_default_predicate(judge, pred):
    """A local predicate whose body is `*v == T::default()` (calls Default::default and PartialEq::eq)."""
    F = _FACTS.get("F")
    if F is None:
        return False
    name = pred.split("::")[-1]
    for k, f in F.funcs.items():
        if k.endswith("::" + name) and f.crate == "cooklang" and not f.is_closure():
            cs = [callee_key(t) or "" for _, t in f.calls()]
            cd = [callee_def(t) or "" for _, t in f.calls()]
            if any(c.endswith("Default::default") for c in cs + cd) and any(c.endswith("PartialEq::eq") for c in cs + cd) and len(cs) <= 3:
                return True
    return False


def _match_close(s, i):
    depth = 0
    for j in range(i, len(s)):
        if s[j] == "<":
            depth += 1
        elif s[j] == ">":
            depth -= 1
            if depth == 0:
                return j
    return len(s) - 1
