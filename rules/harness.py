"""Harness shared by all property checks: fact building/caching, obligations, evidence,
known findings, VIOLATION lines."""
from __future__ import annotations

import fcntl
import glob
import hashlib
import json
import os
import shutil
import subprocess
import sys
import time

VERIF = os.path.dirname(os.path.dirname(os.path.abspath(__file__)))
REPO = os.environ.get("VERIF_REPO", "/repo")
CACHE = os.path.join(VERIF, ".cache")
MIRFACTS = os.path.join(VERIF, "engines/mirfacts/target/debug/mirfacts")
SYNFACTS = os.path.join(VERIF, "engines/synfacts/target/debug/synfacts")

CONFIGS = {
    # name: (cargo args, profile flags, crates expected)
    "Q": (["-p", "cooklang", "-p", "cooklang-bindings"], [], ["cooklang.lib", "cooklang_bindings.lib"]),
    "NODEFAULT": (["-p", "cooklang", "--no-default-features"], [], ["cooklang.lib"]),
    "AISLE": (["-p", "cooklang", "--no-default-features", "--features", "aisle"], [], ["cooklang.lib"]),
    "RELEASE": (["-p", "cooklang", "-p", "cooklang-bindings", "--release"], [], ["cooklang.lib", "cooklang_bindings.lib"]),
    "CLIENTS": (["--workspace"], [], ["cooklang.lib", "cooklang_bindings.lib", "cooklang_playground.lib"]),
}


class SetupError(Exception):
    pass


def sh(cmd, **kw):
    return subprocess.run(cmd, stdout=subprocess.PIPE, stderr=subprocess.STDOUT, text=True, **kw)


def tree_files():
    out = []
    for root, dirs, files in os.walk(REPO):
        dirs[:] = [d for d in dirs if d not in ("target", ".git", "node_modules")]
        for fn in files:
            if fn.endswith((".rs", ".toml", ".lock", ".udl")):
                out.append(os.path.join(root, fn))
    return sorted(out)


def tree_hash():
    h = hashlib.sha256()
    for p in tree_files():
        h.update(p.encode())
        h.update(b"\0")
        with open(p, "rb") as fh:
            h.update(hashlib.sha256(fh.read()).digest())
    # the extractor itself is part of the identity of the facts
    for p in (MIRFACTS, SYNFACTS):
        if os.path.exists(p):
            st = os.stat(p)
            h.update(f"{p}:{st.st_size}:{int(st.st_mtime)}".encode())
    return h.hexdigest()[:24]


def nightly_sysroot():
    r = sh(["rustc", "+nightly", "--print", "sysroot"])
    return r.stdout.strip()


def ensure_engines():
    if not os.path.exists(MIRFACTS) or not os.path.exists(SYNFACTS):
        r = sh([os.path.join(VERIF, "setup.sh")], cwd=VERIF)
        if r.returncode != 0 or not os.path.exists(MIRFACTS):
            raise SetupError("engines could not be built:\n" + r.stdout[-3000:])


class Lock:
    def __init__(self, name):
        os.makedirs(CACHE, exist_ok=True)
        self.path = os.path.join(CACHE, name + ".lock")

    def __enter__(self):
        self.fh = open(self.path, "w")
        fcntl.flock(self.fh, fcntl.LOCK_EX)
        return self

    def __exit__(self, *a):
        fcntl.flock(self.fh, fcntl.LOCK_UN)
        self.fh.close()


def mir_facts(config="Q"):
    """Return the list of fact files for the current working tree of /repo, running the
    driver when the tree (or the driver) changed.  Reuse happens only for a byte-identical tree."""
    ensure_engines()
    args, _, expected = CONFIGS[config]
    th = tree_hash()
    out = os.path.join(CACHE, "facts", th, config)
    marker = os.path.join(out, "OK")
    with Lock("facts-" + config):
        if not os.path.exists(marker):
            if os.path.exists(out):
                shutil.rmtree(out)
            os.makedirs(out)
            target = os.path.join(CACHE, "target-" + config)
            os.makedirs(target, exist_ok=True)
            # cargo's freshness cache would skip the wrapper: forget the members
            for prof in ("debug", "release"):
                for fp in glob.glob(os.path.join(target, prof, ".fingerprint", "cooklang*")):
                    shutil.rmtree(fp, ignore_errors=True)
            env = dict(os.environ)
            env["LD_LIBRARY_PATH"] = nightly_sysroot() + "/lib:" + env.get("LD_LIBRARY_PATH", "")
            env["RUSTFLAGS"] = "-Zmir-opt-level=0 -Awarnings"
            env["RUSTC_WORKSPACE_WRAPPER"] = MIRFACTS
            env["MIRFACTS_OUT"] = out
            env["CARGO_TARGET_DIR"] = target
            env["CARGO_NET_OFFLINE"] = "true"
            env.pop("RUSTC_WRAPPER", None)
            r = sh(["cargo", "+nightly", "check", "--offline", "--quiet"] + args, cwd=REPO, env=env)
            if r.returncode != 0:
                shutil.rmtree(out, ignore_errors=True)
                raise SetupError("cargo check of /repo failed (the tree does not compile?):\n" + r.stdout[-4000:])
            for e in expected:
                if not os.path.exists(os.path.join(out, e + ".json")):
                    shutil.rmtree(out, ignore_errors=True)
                    raise SetupError(f"fact file for {e} was not produced (wrapper skipped?)")
            open(marker, "w").write(th)
            _prune_cache(os.path.join(CACHE, "facts"), keep=th)
    return [os.path.join(out, e + ".json") for e in expected], th


def syn_facts():
    ensure_engines()
    th = tree_hash()
    out = os.path.join(CACHE, "facts", th, "syn")
    path = os.path.join(out, "syn.json")
    with Lock("facts-syn"):
        if not os.path.exists(path):
            os.makedirs(out, exist_ok=True)
            r = subprocess.run([SYNFACTS, REPO], stdout=subprocess.PIPE, stderr=subprocess.PIPE, text=True)
            if r.returncode != 0:
                raise SetupError("synfacts failed:\n" + r.stderr[-3000:])
            with open(path + ".tmp", "w") as fh:
                fh.write(r.stdout)
            os.replace(path + ".tmp", path)
    return path, th


def _prune_cache(root, keep, maxn=6):
    try:
        ents = [(os.stat(os.path.join(root, d)).st_mtime, d) for d in os.listdir(root) if d != keep]
    except FileNotFoundError:
        return
    ents.sort(reverse=True)
    for _, d in ents[maxn:]:
        shutil.rmtree(os.path.join(root, d), ignore_errors=True)


# -------------------------------------------------------------------------------------------------


class Violation:
    def __init__(self, rule, key, where, message, details=None):
        self.rule = rule
        self.key = key          # stable, line-free instance key
        self.where = where      # file:line, for the reader only
        self.message = message
        self.details = details or {}

    def to_json(self):
        return {"rule": self.rule, "key": self.key, "where": self.where, "message": self.message, "details": self.details}


class Check:
    """Collects obligations, violations and evidence for one property run."""

    def __init__(self, pid, tier):
        self.pid = pid
        self.tier = tier
        self.t0 = time.time()
        self.obligations = 0
        self.discharged = 0
        self.violations: list[Violation] = []
        self.samples = []
        self.rules = {}       # rule -> {"obligations": n, "discharged": n, "what": str}
        self.distinct = set()
        self.notes = {}
        self.trusted = []
        self.assumptions = []
        self.explanation = ""
        self.analysed = {}

    def rule(self, name, what):
        self.rules.setdefault(name, {"what": what, "obligations": 0, "discharged": 0})

    def ok(self, rule, key, sample=None):
        self.obligations += 1
        self.discharged += 1
        r = self.rules.setdefault(rule, {"what": "", "obligations": 0, "discharged": 0})
        r["obligations"] += 1
        r["discharged"] += 1
        self.distinct.add((rule, key))
        if sample is not None and sum(1 for s in self.samples if s.get("rule") == rule) < 4:
            self.samples.append({"rule": rule, "key": key, "verdict": "discharged", "site": sample})

    def fail(self, rule, key, where, message, details=None):
        self.obligations += 1
        r = self.rules.setdefault(rule, {"what": "", "obligations": 0, "discharged": 0})
        r["obligations"] += 1
        self.distinct.add((rule, key))
        self.violations.append(Violation(rule, key, where, message, details))

    def expect(self, cond, rule, key, where, message, sample=None, details=None):
        if cond:
            self.ok(rule, key, sample if sample is not None else where)
        else:
            self.fail(rule, key, where, message, details)
        return cond

    def floor(self, rule, key, count, minimum, where=""):
        """Fail closed when a selector matches fewer sites than were confirmed by hand."""
        self.expect(count >= minimum, rule, f"{key}#floor", where,
                    f"anchor-missing: selector '{key}' matched {count} site(s), expected at least {minimum}",
                    sample=f"{key}: {count} site(s) (floor {minimum})")


def fold(chk: Check, sub: Check, rename, keep=lambda rule: True):
    """Claim obligations decided for another property under this property's rule names (shared necessary conditions)."""
    for rule, r in sub.rules.items():
        if not keep(rule):
            continue
        tgt = chk.rules.setdefault(rename(rule), {"what": r.get("what", ""), "obligations": 0, "discharged": 0})
        tgt["obligations"] += r["obligations"]
        tgt["discharged"] += r["discharged"]
        chk.obligations += r["obligations"]
        chk.discharged += r["discharged"]
    for v in sub.violations:
        if keep(v.rule):
            chk.violations.append(Violation(rename(v.rule), v.key, v.where, v.message, v.details))
    for sm in sub.samples:
        if keep(sm.get("rule", "")) and sum(1 for x in chk.samples if x.get("rule") == rename(sm["rule"])) < 2:
            chk.samples.append(dict(sm, rule=rename(sm["rule"])))


def second_opinion(mod, chk: Check):
    """Rules that fail on the program as written are re-evaluated on two normalised views (inline.py): (A) freshly extracted
    helper functions — functions that are not in the reviewed reference list tables/functions.txt — inlined into their callers,
    (B) the same helpers kept but attributed to their caller's region, (C) like A with directly called local closures inlined as well.  A violation is kept only if its rule is also violated
    in every view; violations that are literally identical in a view (same rule and key) are unaffected by the normalisation."""
    import facts
    P = {(v.rule, v.key) for v in chk.violations}
    verdicts = []
    notes = {}
    for mode in ("inline", "rehome", "inline-closures"):
        sub = Check(chk.pid, chk.tier)
        facts.NORMALISE = mode
        try:
            mod.run(sub)
        except Exception as e:           # this view could not be evaluated: it gives no opinion
            notes[mode] = f"not evaluated: {type(e).__name__}: {str(e)[:160]}"
            continue
        finally:
            facts.NORMALISE = False
        N = {(v.rule, v.key) for v in sub.violations}
        common = P & N
        moved_rules = {r for (r, k) in N - common}
        verdicts.append((common, moved_rules, bool(N - common)))
        notes[mode] = {"violations": len(N)}
    keep, dropped = [], []
    for v in chk.violations:
        anchor = v.rule == "anchor-missing" or "anchor-missing" in v.message
        # a missing anchor is excused only by a view in which the anchor is found AND nothing new is wrong: if the view that can
        # finally evaluate the rule reports a violation of its own, the alarm stays
        if verdicts and any((v.rule, v.key) not in common and v.rule not in moved and not (anchor and unclean) for common, moved, unclean in verdicts):
            dropped.append(v)
        else:
            keep.append(v)
    for v in dropped:
        chk.discharged += 1
        r = chk.rules.setdefault(v.rule, {"what": "", "obligations": 0, "discharged": 0})
        r["discharged"] += 1
        if sum(1 for s_ in chk.samples if s_.get("verdict") == "discharged-on-normalised-view") < 6:
            chk.samples.append({"rule": v.rule, "key": v.key, "verdict": "discharged-on-normalised-view", "site": v.where})
    chk.violations = keep
    chk.notes["normalised_views"] = {"violations_as_written": len(P), **notes,
                                     "discharged_by_normalisation": [f"{v.rule}|{v.key}" for v in dropped][:20]}


def load_known():
    p = os.path.join(VERIF, "known_findings.json")
    if not os.path.exists(p):
        return {"known": [], "fixed": []}
    with open(p) as fh:
        return json.load(fh)


def finish(chk: Check, level_text=""):
    known = load_known()
    known_keys = {(k["property"], k["rule"], k["key"]): k for k in known.get("known", [])}
    ev_dir = os.environ.get("VERIF_EVIDENCE_DIR") or os.path.join(VERIF, "evidence")
    rep_dir = os.path.join(ev_dir, "reports") if os.environ.get("VERIF_EVIDENCE_DIR") else os.path.join(VERIF, "reports")
    os.makedirs(rep_dir, exist_ok=True)
    os.makedirs(ev_dir, exist_ok=True)
    # clear old reports of this property
    for p in glob.glob(os.path.join(rep_dir, f"{chk.pid}-*.json")):
        os.remove(p)
    real = []
    kf = []
    for v in chk.violations:
        k = known_keys.get((chk.pid, v.rule, v.key))
        if k is not None:
            kf.append((v, k))
        else:
            real.append(v)
    lines = []
    for v, k in kf:
        lines.append(f"KNOWN-FINDING: property={chk.pid} {v.rule} {v.key} — {k.get('what', v.message)}")
    for n, v in enumerate(real, 1):
        path = os.path.join(rep_dir, f"{chk.pid}-{n}.json")
        with open(path, "w") as fh:
            json.dump({"property": chk.pid, **v.to_json()}, fh, indent=1)
        print(f"  [{v.rule}] {v.where}: {v.message}\n      instance: {v.key}")
        lines.append(f"VIOLATION property={chk.pid} replay={path}")
    wall = time.time() - chk.t0
    ev = {
        "property_id": chk.pid,
        "tier": chk.tier,
        "seed": int(os.environ.get("VERIF_SEED", "0") or 0),
        "level": "other",
        "coverage": {
            "explanation": chk.explanation,
            "obligations": chk.obligations,
            "discharged": chk.discharged + len(kf),
            "evaluations": chk.obligations,
            "distinct_nontrivial": len(chk.distinct),
            "rule": "one evaluation = one rule instance (a site, path, field or table cell selected on the resolved program) decided on the current tree; distinct = distinct (rule, instance key) pairs; an instance is non-trivial when its selector matched at least one construct (floors fail closed otherwise)",
            "samples": chk.samples[:40],
            "rules": chk.rules,
            "analysed": chk.analysed,
            "checker_cmd": f"./check {chk.pid} --tier {chk.tier}",
            "trusted_base": chk.trusted,
            "known_findings_reported": [v.key for v, _ in kf],
            "exhaustive": True,
            **chk.notes,
        },
        "assumptions": chk.assumptions,
        "wall_s": round(wall, 2),
        "violations": len(real),
    }
    with open(os.path.join(ev_dir, f"{chk.pid}.json"), "w") as fh:
        json.dump(ev, fh, indent=1, default=str)
    for l in lines:
        print(l)
    print(f"{chk.pid}: {chk.obligations} obligations, {chk.discharged} discharged, "
          f"{len(kf)} known finding(s), {len(real)} violation(s) [{wall:.1f}s, tier={chk.tier}]")
    return 1 if real else 0
