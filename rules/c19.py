"""C19 — the FFI view mirrors the core recipe and combines amounts faithfully.

Decided clauses (bindings crate):
  D1  kind lineage of into_item / into_simple_recipe: an ingredient index becomes an IngredientRef
      and is recorded only in ingredient lists (same for cookware, timers); step lists are cloned
      into the step and extended into the same-kind section list; one Section per core section;
      component vectors are maps over the same-named core vectors;
  D2  field lineage of the From impls, extract_amount and extract_value;
  D3  deref_* index the same-kind vector of the passed recipe;
  D4  merge: the grouping key's type equals the value's variant; the bucket is looked up by the
      incoming key itself; each merge arm adds the incoming value into the stored one, field by
      field; combine_ingredients = combine_ingredients_selected over 0..len; every listed index
      is folded once.
Not decided: numerical sums, float-addition order, HashMap order."""
from __future__ import annotations

import re

import harness
from facts import Facts, callee_key, norm, region_of
from flow import resolve, resolve_place, leaves, show, walk
from cfgq import calls_to, region_calls_to, arg_expr, arg_leaves, aggregates, variant_arm_blocks, option_some_edges, in_loop
from c03 import acyclic_without
from c13 import _recv_var, _source_name

B = "cooklang_bindings::"
KINDS = [("Ingredient", "IngredientRef", "ingredient"), ("Cookware", "CookwareRef", "cookware"), ("Timer", "TimerRef", "timer")]


def full(e):
    import flow
    return flow.show(e, -50)


def run(chk: harness.Check):
    paths, th = harness.mir_facts("Q")
    F = Facts(paths)
    chk.explanation = (
        "Lineage rules on the MIR of the cooklang-bindings crate: (D1) into_item maps Item::X{index} to the X reference with that index; in "
        "into_simple_recipe a reference index of kind K is pushed only into the step list of kind K, the Step takes clones of the three step lists by kind, "
        "section lists are extended by the same-kind step lists, Section.title is the core section name, and the recipe's component vectors are maps over "
        "the same-named core vectors; (D2) name←name, amount←quantity via extract_amount, descriptor←note; quantity←value(), units←unit(); "
        "Number/Range/Text map to the same-named variant with start←start, end←end; names, notes, units and text values pass only through copying/borrowing conversions (no trim/case/format on the way); the component vectors are element-wise maps (no filter/rev/take), since step items carry core indices; (D3) deref_* use the same-kind vector; (D4) the GroupedQuantityKey "
        "built in each arm of into_group_quantity carries the arm's variant, merge_grouped_quantities looks the bucket up with a clone of the incoming key "
        "and adds incoming into stored per field, combine_ingredients passes 0..len, expand_with_ingredients folds each listed index once. "
        "No amounts are computed.")
    chk.trusted = ["rustc MIR of cooklang-bindings (uniffi scaffolding trusted by origin)"]
    chk.analysed = {"facts": th}
    d1_kinds(chk, F)
    d2_fields(chk, F)
    d3_deref(chk, F)
    d4_merge(chk, F)


def d1_kinds(chk, F):
    f = F.funcs.get(B + "model::into_item")
    if f is None:
        chk.fail("anchor-missing", "into_item", "", "anchor-missing: bindings model::into_item not found")
        return
    seen = set()
    for ff, i, s, d in aggregates(F, f.key, "model::Item"):
        v = s["rv"]["variant"]
        for core, ref, _ in KINDS:
            if v == ref:
                seen.add(v)
                t = full(resolve(ff, d["index"]))
                chk.expect(f"as {core}.index" in t, "C19.D1-kinds", f"into_item|{ref}", f"{ff.file}:{s.get('line')}",
                           f"Item::{ref} must carry the index of the core {core} item; it carries {t[:60]}", sample=f"{ref}.index ← item as {core}.index")
    chk.expect(seen == {r for _, r, _ in KINDS}, "C19.D1-kinds", "into_item|variants", f"{f.file}:{f.line}", f"into_item builds {sorted(seen)}",
               sample="into_item builds IngredientRef, CookwareRef, TimerRef")
    g = F.funcs.get(B + "model::into_simple_recipe")
    if g is None:
        chk.fail("anchor-missing", "into_simple_recipe", "", "anchor-missing: into_simple_recipe not found")
        return
    # pushes of reference indices into step lists.  Variables are identified by their MIR local, not by their name: the rule is
    # that the list an item index is pushed to IS the list the Step gets for that kind and the list the section's list is
    # extended by — whatever the lists are called.
    def root_local(ff, op):
        """the local a receiver / source operand refers to (through &, &mut, deref(_mut), clone and plain copies)"""
        p = op.get("move") or op.get("copy") if isinstance(op, dict) else None
        cur = p["l"] if p is not None else None
        for _ in range(12):
            if cur is None:
                return None
            if ff.local_name(cur):
                return cur
            ds = ff.defs.get(cur, [])
            if len(ds) != 1:
                return cur
            d0 = ds[0]
            if d0[0] == "stmt":
                rv = d0[3]["rv"]
                if rv["k"] == "use":
                    q = rv["op"].get("move") or rv["op"].get("copy")
                    cur = q["l"] if q is not None else None
                    continue
                if rv["k"] in ("ref", "rawptr"):
                    pl = rv["place"]
                    flds = [x for x in pl["p"] if x.startswith(".")]
                    if flds:
                        # `&step.ingredient_refs` where `step` is a struct built (possibly in an inlined helper) from the lists
                        bd = ff.defs.get(pl["l"], [])
                        while len(bd) == 1 and bd[0][0] == "stmt" and bd[0][3]["rv"]["k"] == "use":
                            q = bd[0][3]["rv"]["op"].get("move") or bd[0][3]["rv"]["op"].get("copy")
                            if q is None or q["p"]:
                                break
                            bd = ff.defs.get(q["l"], [])
                        if len(bd) == 1 and bd[0][0] == "stmt" and bd[0][3]["rv"].get("agg") == "adt" and flds[-1][1:] in bd[0][3]["rv"].get("fields", []):
                            arv = bd[0][3]["rv"]
                            q = arv["ops"][arv["fields"].index(flds[-1][1:])]
                            q = q.get("move") or q.get("copy")
                            cur = q["l"] if q is not None and not q["p"] else None
                            continue
                        return None
                    cur = pl["l"]
                    continue
                return cur
            if d0[0] == "call":
                t_ = d0[2] if isinstance(d0[2], dict) else ff.blocks[d0[1]]["term"]
                ck = callee_key(t_) or ""
                if ck.endswith(("deref_mut", "deref", "Clone>::clone", "as_mut_slice", "as_slice", "mem::take")) and t_.get("args"):
                    q = t_["args"][0].get("move") or t_["args"][0].get("copy")
                    cur = q["l"] if q is not None else None
                    continue
                return cur
            return cur
        return cur
    def nm(ff, l):
        return ff.local_name(l) or f"_{l}"
    step_list = {}
    n = 0
    for b, t in calls_to(g, "Vec::push"):
        val = full(arg_expr(g, t, 1))
        m = re.search(r"as (IngredientRef|CookwareRef|TimerRef)\.index", val)
        if m:
            n += 1
            kind = {"IngredientRef": "ingredient", "CookwareRef": "cookware", "TimerRef": "timer"}[m.group(1)]
            step_list.setdefault(kind, set()).add(root_local(g, t["args"][0]))
    chk.floor("C19.D1-kinds", "reference index pushes", n, 3, f"{g.file}:{g.line}")
    ok_lists = all(len(step_list.get(k, ())) == 1 for _, _, k in KINDS) and len({next(iter(v)) for v in step_list.values()}) == 3
    chk.expect(ok_lists, "C19.D1-kinds", "into_simple_recipe|one list per kind", f"{g.file}:{g.line}",
               f"the indices of ingredient / cookware / timer items must go to three different lists, one per kind; found { {k: sorted(nm(g, x) for x in v if x is not None) for k, v in step_list.items()} }",
               sample="item indices pushed to one list per kind")
    if not ok_lists:
        return
    L = {k: next(iter(v)) for k, v in step_list.items()}
    for ff, i, s, d in aggregates(F, g.key, "model::Step"):
        if ff is not g:
            continue
        for _, _, kind in KINDS:
            src = root_local(ff, d[f"{kind}_refs"])
            chk.expect(src == L[kind], "C19.D1-kinds", f"Step.{kind}_refs", f"{ff.file}:{s.get('line')}",
                       f"Step.{kind}_refs is taken from `{nm(ff, src) if src is not None else '?'}`, not from the list the {kind} indices were pushed to (`{nm(g, L[kind])}`)",
                       sample=f"Step.{kind}_refs ← the {kind} index list")
    ext = calls_to(g, "Extend<T>>::extend") + calls_to(g, "Vec::<T, A>::extend_from_slice") + calls_to(g, "Vec::<T, A>::append")
    pairs = set()
    for b, t in ext:
        pairs.add((root_local(g, t["args"][0]), root_local(g, t["args"][1])))
    S = {}
    for _, _, kind in KINDS:
        hit = [a for a, b_ in pairs if b_ == L[kind]]
        chk.expect(len(hit) == 1, "C19.D1-kinds", f"section {kind}_refs extend", f"{g.file}:{g.line}",
                   f"the section's {kind} list must be extended by the step's {kind} list exactly once; extends found: {sorted((nm(g, a) if a is not None else '?', nm(g, b_) if b_ is not None else '?') for a, b_ in pairs)}",
                   sample=f"section {kind} list .extend(step {kind} list)")
        if hit:
            S[kind] = hit[0]
    chk.expect(len(pairs) == 3 and len(set(S.values())) == len(S), "C19.D1-kinds", "section extends", f"{g.file}:{g.line}",
               f"expected exactly three extend calls into three different section lists, found {len(pairs)}", sample="three extends, one per kind")
    for ff, i, s, d in aggregates(F, g.key, "model::Section"):
        if ff is not g:
            continue
        where = f"{ff.file}:{s.get('line')}"
        t = full(resolve(ff, d["title"]))
        chk.expect(t.endswith(".name)") and "sections" in t, "C19.D1-kinds", "Section.title", where, f"Section.title is {t[:80]}, not the core section name", sample="Section.title ← section.name")
        for _, _, kind in KINDS:
            src = root_local(ff, d[f"{kind}_refs"])
            chk.expect(kind in S and src == S[kind], "C19.D1-kinds", f"Section.{kind}_refs", where,
                       f"Section.{kind}_refs is taken from `{nm(ff, src) if src is not None else '?'}`, not from the list that collects the steps' {kind} lists",
                       sample=f"Section.{kind}_refs ← the section's {kind} list")
        src = root_local(ff, d["blocks"])
        bl = [root_local(g, t_["args"][0]) for b_, t_ in calls_to(g, "Vec::push") if re.search(r"Block::(StepBlock|NoteBlock)", full(arg_expr(g, t_, 1)))]
        chk.expect(bool(bl) and all(x == src for x in bl), "C19.D1-kinds", "Section.blocks", where,
                   "Section.blocks is not the list the blocks were pushed to", sample="Section.blocks ← the block list")
    secpush = [(b, t) for b, t in calls_to(g, "Vec::push") if _recv_var(g, t["args"][0]) == "sections"]
    ok = len(secpush) == 1 and in_loop(g, secpush[0][0])
    chk.expect(ok, "C19.D1-kinds", "one Section per core section", f"{g.file}:{g.line}", "sections.push must happen exactly once per iteration over recipe.sections",
               sample="sections.push(Section{..}) once per core section")
    # ... for EVERY core section: the loop walks recipe.sections itself (no filter / skip / take / rev in the iterator's lineage)
    # and no iteration can come back to the loop head without having pushed its Section
    heads = []
    for b, t in g.calls():
        ck = callee_key(t) or ""
        if ck.endswith(("Iterator>::next", "Iterator::next")):
            e = arg_expr(g, t, 0)
            if ".sections" in full(e) and ".content" not in full(e):
                heads.append((b, e))
    okh = len(heads) == 1
    if okh and secpush:
        hb, he = heads[0]
        calls = [l[5:] for l in leaves(he) if l.startswith("call:")]
        plain = all(c.endswith(("IntoIterator>::into_iter", "<impl [T]>::iter", "Deref>::deref", "Iterator>::next", "Iterator::next")) for c in calls)
        chk.expect(plain, "C19.D1-kinds", "every core section|plain iteration", g.where(hb),
                   f"the section loop does not walk recipe.sections directly (iterator built through {[c.rsplit('::', 1)[-1] for c in calls][:5]}): "
                   "a filtered or reordered walk drops or renumbers sections", sample=f"{g.where(hb)}: for section in &recipe.sections")
        P = secpush[0][0]
        back = hb in g.reach_from(hb, removed_nodes={P}) - {hb} or any(hb in g.reach_from(s_, removed_nodes={P}) for s_ in g.succ[hb] if s_ != P)
        chk.expect(not back, "C19.D1-kinds", "every core section|no skipped iteration", g.where(hb),
                   "an iteration of the section loop can return to the loop head without pushing a Section (`continue` / early skip)",
                   sample=f"{g.where(hb)}: every iteration passes sections.push")
        # the section's lists start EMPTY in every iteration: each cycle through the loop head passes a fresh Vec (new /
        # with_capacity / default / take) assigned to the list, or a clear() of it
        def inits(l):
            out = set()
            for d0 in g.defs.get(l, []):
                if d0[0] == "call":
                    t_ = g.blocks[d0[1]]["term"]
                    if (callee_key(t_) or "").endswith(("Vec::<T>::new", "Vec::<T>::with_capacity", "Default>::default", "mem::take")):
                        out.add(t_.get("target", d0[1]))
            for b_, t_ in g.calls():
                if (callee_key(t_) or "").endswith(("Vec::<T, A>::clear", "Vec::<T, A>::truncate")) and t_.get("args") and root_local(g, t_["args"][0]) == l:
                    out.add(b_)
            return out
        cheads = [b_ for b_, t_ in g.calls() if (callee_key(t_) or "").endswith(("Iterator>::next", "Iterator::next")) and ".content" in full(arg_expr(g, t_, 0))
                  and ".items" not in full(arg_expr(g, t_, 0))]
        if len(cheads) == 1:
            ch = cheads[0]
            for kind, l in sorted(L.items()):
                I = inits(l)
                uses = {b_ for b_, t_ in g.calls() if any(root_local(g, a) == l for a in t_.get("args", []) if isinstance(a, dict) and ("move" in a or "copy" in a))} - I
                stale = set()
                for s_ in g.succ[ch]:
                    stale |= g.reach_from(s_, removed_nodes=I | {ch}) & uses
                again = bool(stale)
                chk.expect(bool(I) and bool(uses) and not again, "C19.D1-kinds", f"step {kind} list|fresh per block", g.where(ch),
                           f"the list of a step's {kind} references (`{nm(g, l)}`) is not emptied / re-created for every block of the section: a step would also list "
                           "the references of the steps before it", sample=f"{g.where(ch)}: `{nm(g, l)}` starts empty for every step")
        for kind, l in sorted(S.items()):
            I = inits(l)
            again = any(hb in g.reach_from(s_, removed_nodes=I) for s_ in g.succ[hb]) if I else True
            chk.expect(bool(I) and not again, "C19.D1-kinds", f"section {kind} list|fresh per section", g.where(hb),
                       f"the list that collects a section's {kind} references (`{nm(g, l)}`) is not emptied / re-created in every iteration of the section loop: "
                       "a section would also list the references of the sections before it",
                       sample=f"{g.where(hb)}: `{nm(g, l)}` starts empty in every section")
    else:
        chk.fail("C19.D1-kinds", "every core section|loop head", f"{g.file}:{g.line}", f"expected one loop over recipe.sections in into_simple_recipe, found {len(heads)}")
    blocks = [(b, t) for b, t in calls_to(g, "Vec::push") if _recv_var(g, t["args"][0]) == "blocks"]
    # one push per arm, or a single push of `match content { Step => StepBlock(..), Text => NoteBlock(..) }`
    kinds = sorted({k for b, t in blocks for k in re.findall(r"Block::(\w+Block)\b", full(arg_expr(g, t, 1)))})
    chk.expect(kinds == ["NoteBlock", "StepBlock"], "C19.D1-kinds", "blocks", f"{g.file}:{g.line}", f"blocks pushed: {kinds}", sample="Step ↦ StepBlock, Text ↦ NoteBlock")
    for ff, i, s, d in aggregates(F, g.key, "model::BlockNote"):
        t = full(resolve(ff, d["text"]))
        chk.expect("as Text.0" in t, "C19.D1-kinds", "NoteBlock.text", f"{ff.file}:{s.get('line')}", f"NoteBlock.text is {t[:80]}", sample="NoteBlock.text ← Content::Text payload")
    for ff, i, s, d in aggregates(F, g.key, "model::CooklangRecipe"):
        for fld in ("ingredients", "cookware", "timers"):
            p = d[fld].get("move") or d[fld].get("copy")
            src = _source_name(ff, p["l"]) if p and not p["p"] else None
            # the named local is initialised from recipe.<fld>
            init = None
            for bb, tt in calls_to(ff, "Iterator::collect"):
                if ff.local_name(tt["dest"]["l"]) == fld:
                    init = full(arg_expr(ff, tt, 0))
                    # item references are core indices: the FFI vector has one element per core element, in the same order
                    adaptors = sorted({n[1].rsplit("::", 1)[-1] for n in walk(arg_expr(ff, tt, 0)) if n[0] == "call" and
                                       re.search(r"(Iterator|IntoIterator|DoubleEndedIterator)(<[^>]*>)?>?::\w+$|<impl \[T\]>::iter$|Vec::<T, A>::(iter|drain)$", n[1])})
                    extra = [a for a in adaptors if a not in ("iter", "into_iter", "map", "cloned", "copied", "by_ref", "enumerate", "inspect")]
                    chk.expect(not extra, "C19.D1-kinds", f"CooklangRecipe.{fld}|one-to-one", f"{ff.file}:{tt.get('line')}",
                               f"CooklangRecipe.{fld} is built with {extra}: elements can be dropped, added or reordered, so the core indices carried by step items "
                               "no longer denote the same component", sample=f"CooklangRecipe.{fld}: element-wise map ({adaptors})")
            ok = src == fld and init is not None and f"(*recipe).{fld}" in init and not any(f"(*recipe).{o}" in init for o in ("ingredients", "cookware", "timers") if o != fld)
            chk.expect(ok, "C19.D1-kinds", f"CooklangRecipe.{fld}", f"{ff.file}:{s.get('line')}",
                       f"CooklangRecipe.{fld} must be a map over recipe.{fld}; it is `{src}` = {str(init)[:80]}", sample=f"CooklangRecipe.{fld} ← recipe.{fld}.iter().map(into)")


# conversions that hand a string over unchanged (copy, borrow, wrap); anything else between the core field and the FFI field
# (trim, to_lowercase, replace, format!, ...) makes the exposed text differ from the core recipe for some input
VERBATIM = ("Clone>::clone", "ToString>::to_string", "ToOwned>::to_owned", "Into<U>>::into", "From<T>>::from", "Option::<T>::map", "Option::<T>::as_ref",
            "Option::<T>::as_deref", "Option::<T>::cloned", "Option::<T>::unwrap_or_default", "Option::<T>::map_or_else", "Option::<T>::and_then",
            "Deref>::deref", "AsRef<T>>::as_ref", "AsRef<str>>::as_ref", "Borrow<T>>::borrow", "String::as_str", "String::new", "Default>::default",
            "Quantity::<V>::unit", "Quantity::<V>::value", "Cow::<B>::into_owned", "String::from", "<impl str>::to_string", "<impl str>::to_owned",
            "Option::<T>::as_mut", "Option::<T>::unwrap_or", "String::clone")


def _calls_with_closures(F, e, depth=0):
    out = []
    for n in walk(e):
        if n[0] == "call":
            out.append(n[1])
        elif n[0] == "agg" and n[1] == "closure" and n[2] in F.funcs and depth < 3:
            for b, t in F.funcs[n[2]].calls():
                out.append(callee_key(t) or "?")
    return out


def _verbatim(chk, F, ff, e, key, where, what):
    extra = sorted({c for c in _calls_with_closures(F, e) if not c.endswith(VERBATIM)})
    chk.expect(not extra, "C19.D2-fields", f"{key}|verbatim", where,
               f"{what} is not handed over verbatim: it passes through {', '.join(x.rsplit('::', 2)[-2] + '::' + x.rsplit('::', 1)[-1] for x in extra[:4])} — "
               "the FFI view then differs from the core recipe for some spelling", sample=f"{where}: {what} copied unchanged")


def d2_fields(chk, F):
    want = {
        "Ingredient": {"name": ".name", "amount": ".quantity", "descriptor": ".note"},
        "Cookware": {"name": ".name", "amount": ".quantity"},
        "Timer": {"name": ".name", "amount": ".quantity"},
    }
    for k, f in F.funcs.items():
        m = re.match(r"cooklang_bindings::<model::(\w+) as std::convert::From<&cooklang::(\w+)(<[^>]*>)?>>::from$", k)
        if not m or f.is_closure():
            continue
        ty = m.group(1)
        if ty not in want:
            continue
        ag = [(ff, i, s, d) for ff, i, s, d in aggregates(F, k, "model::" + ty) if ff is f]
        if len(ag) != 1:
            chk.fail("anchor-missing", k, "", f"anchor-missing: construction of bindings {ty}")
            continue
        ff, i, s, d = ag[0]
        for fld, src in want[ty].items():
            t = full(resolve(ff, d[fld]))
            others = [o for o in (".name", ".quantity", ".note", ".alias") if o != src]
            # which fields of the core component are in the lineage (first field after the parameter, downcasts ignored)
            pf = {m_.group(1) for m_ in (re.match(r"param:\w+(\.name|\.quantity|\.note|\.alias)", l) for l in leaves(resolve(ff, d[fld]))) if m_}
            ok = src in pf and not (pf & set(others))
            chk.expect(ok, "C19.D2-fields", f"{ty}.{fld}", f"{ff.file}:{s.get('line')}", f"bindings {ty}.{fld} must come from the core {src[1:]}; it is {t[:90]}",
                       sample=f"{ty}.{fld} ← core{src}")
            if fld != "amount":
                _verbatim(chk, F, ff, resolve(ff, d[fld]), f"{ty}.{fld}", f"{ff.file}:{s.get('line')}", f"bindings {ty}.{fld}")
            if fld == "amount":
                clos = [n[2] for n in walk(resolve(ff, d[fld])) if n[0] == "agg" and n[1] == "closure"]
                okc = any(calls_to(F.funcs[c], "extract_amount") for c in clos if c in F.funcs)
                if not okc:
                    # through a helper (`optional_amount(&c.quantity)`) or with the method passed as a function value
                    from cfgq import calls_reaching
                    rb = set(calls_reaching(F, ff, "extract_amount"))
                    okc = any(n[0] == "call" and n[3] in rb for n in walk(resolve(ff, d[fld])))
                chk.expect(okc, "C19.D2-fields", f"{ty}.amount via extract_amount", f"{ff.file}:{s.get('line')}", "amount must be produced by extract_amount", sample=f"{ty}.amount ← q.extract_amount()")
    seen = 0
    for k, f in F.funcs.items():
        if k.endswith("model::Amountable>::extract_amount") and f.crate == "cooklang_bindings":
            for ff, i, s, d in aggregates(F, k, "model::Amount"):
                seen += 1
                q = full(resolve(ff, d["quantity"]))
                u = full(resolve(ff, d["units"]))
                isq = "Quantity" in k
                okq = q.startswith("model::extract_value(") and (("value(" in q) if isq else ("self" in q))
                # the Quantity impl may delegate to the Value impl (checked on its own) and take over its `quantity`
                okq = okq or (isq and re.search(r"Amountable>::extract_amount\(.*value\(.*\)\)\.quantity$", q) is not None)
                oku = ("unit(" in u) if isq else (u == "Option::None{}")
                chk.expect(okq and oku, "C19.D2-fields", f"extract_amount|{'Quantity' if isq else 'Value'}", f"{ff.file}:{s.get('line')}",
                           f"extract_amount builds quantity={q[:60]}, units={u[:60]}", sample=f"quantity ← extract_value(value), units ← {'unit()' if isq else 'None'}")
                if isq:
                    _verbatim(chk, F, ff, resolve(ff, d["units"]), "extract_amount|units", f"{ff.file}:{s.get('line')}", "the unit of an amount")
    chk.floor("C19.D2-fields", "extract_amount impls", seen, 2)
    f = F.funcs.get(B + "model::extract_value")
    if f is None:
        chk.fail("anchor-missing", "extract_value", "", "anchor-missing")
        return
    got = {}
    for ff, i, s, d in aggregates(F, f.key, "model::Value"):
        got[s["rv"]["variant"]] = {k: full(resolve(ff, v)) for k, v in d.items()}
    exp = {"Number": {"value": "as Number.0"}, "Range": {"start": "as Range.start", "end": "as Range.end"}, "Text": {"value": "as Text.0"}}
    for v, flds in exp.items():
        for fld, frag in flds.items():
            t = got.get(v, {}).get(fld, "")
            chk.expect(frag in t, "C19.D2-fields", f"extract_value|{v}.{fld}", f"{f.file}:{f.line}",
                       f"bindings Value::{v}.{fld} must come from the core value's {frag}; it is {t[:80] or 'missing'}", sample=f"Value::{v}.{fld} ← core {frag}")
            if v == "Text":
                for ff, i, s_, d in aggregates(F, f.key, "model::Value"):
                    if s_["rv"]["variant"] == "Text":
                        _verbatim(chk, F, ff, resolve(ff, d[fld]), "extract_value|Text.value", f"{ff.file}:{s_.get('line')}", "a text value")
            if v in ("Number", "Range"):
                # the amount exposed is the core number's full value (Number::value: whole + err + num/den), read directly
                okv = t.startswith("Number::value(") and t.count("(") - t.count("as ") <= 3 and "Number::value" in t and not any(
                    x in t for x in (" Div ", " Add ", " Mul ", "number_value", "::from("))
                chk.expect(okv, "C19.D2-fields", f"extract_value|{v}.{fld}|Number::value", f"{f.file}:{f.line}",
                           f"bindings Value::{v}.{fld} must be the core Number::value() of that field; it is {t[:90]}", sample=f"Value::{v}.{fld} = core.{fld}.value()")


def d3_deref(chk, F):
    for name, kinds in (("deref_ingredient", ["ingredients"]), ("deref_cookware", ["cookware"]), ("deref_timer", ["timers"])):
        f = F.funcs.get(B + name)
        if f is None:
            chk.fail("anchor-missing", name, "", f"anchor-missing: {name}")
            continue
        gs = calls_to(f, "[T]>::get")
        ok = len(gs) == 1 and f"(*recipe).{kinds[0]}" in full(arg_expr(f, gs[0][1], 0)) and full(arg_expr(f, gs[0][1], 1)) == "(index as usize)"
        chk.expect(ok, "C19.D3-deref", name, f"{f.file}:{f.line}", f"{name} must index recipe.{kinds[0]} with the given index", sample=f"{name}: recipe.{kinds[0]}[index]")
    f = F.funcs.get(B + "deref_component")
    if f is None:
        chk.fail("anchor-missing", "deref_component", "", "anchor-missing")
        return
    pairs = set()
    for b, t in calls_to(f, "[T]>::get"):
        vec = re.search(r"\(\*recipe\)\.(\w+)", full(arg_expr(f, t, 0)))
        idx = re.fullmatch(r"\(item as (\w+)Ref\.index as usize\)", full(arg_expr(f, t, 1)))
        if vec and idx:
            pairs.add((idx.group(1), vec.group(1)))
    # ... or by delegating to the single-kind functions checked above: deref_<kind>(recipe, item.<Kind>Ref.index)
    DELEG = {"deref_ingredient": "ingredients", "deref_cookware": "cookware", "deref_timer": "timers"}
    via = {}
    for b, t in f.calls():
        ck = (callee_key(t) or "")
        nm_ = ck.rsplit("::", 1)[-1]
        if ck.startswith(B) and nm_ in DELEG and len(t.get("args", [])) == 2:
            idx = re.fullmatch(r"item as (\w+)Ref\.index", full(arg_expr(f, t, 1)).strip("()"))
            if idx and "recipe" in full(arg_expr(f, t, 0)):
                pairs.add((idx.group(1), DELEG[nm_]))
                via[ck] = DELEG[nm_]
    chk.expect(pairs == {("Ingredient", "ingredients"), ("Cookware", "cookware"), ("Timer", "timers")}, "C19.D3-deref", "deref_component", f"{f.file}:{f.line}",
               f"deref_component must resolve each reference kind in the same-kind vector; it pairs {sorted(pairs)}", sample=f"{sorted(pairs)}")
    # the component variant matches the kind
    for ff, i, s, d in aggregates(F, f.key, "model::Component"):
        v = s["rv"]["variant"]
        t = full(resolve(ff, list(d.values())[0]))
        for core, _, _ in KINDS:
            if v == f"{core}Component":
                vec = {"Ingredient": "ingredients", "Cookware": "cookware", "Timer": "timers"}[core]
                okv = f"(*recipe).{vec}" in t or any(k.split("::")[-1] + "(" in t and vv == vec for k, vv in via.items())
                chk.expect(okv, "C19.D3-deref", f"deref_component|{v}", f"{ff.file}:{s.get('line')}", f"{v} is built from {t[:80]}", sample=f"{v} ← recipe.{vec}")


def d4_merge(chk, F):
    f = F.funcs.get(B + "model::into_group_quantity")
    if f is None:
        chk.fail("anchor-missing", "into_group_quantity", "", "anchor-missing")
        return
    for v in ("Number", "Range", "Text", "Empty"):
        arms = [tgt for _, tgt in variant_arm_blocks(f, "model::Value", v)]
        hit = []
        for ff, i, s, d in aggregates(F, f.key, "model::GroupedQuantityKey"):
            if ff is f and any(f.node_dominates(a, i) for a in arms):
                hit.append(full(resolve(ff, d["unit_type"])))
        chk.expect(hit == [f"QuantityType::{v}{{}}"], "C19.D4-merge", f"into_group_quantity|{v}", f"{f.file}:{f.line}",
                   f"a Value::{v} amount must be keyed as QuantityType::{v}; the arm builds {hit}", sample=f"Value::{v} ↦ QuantityType::{v}")
    # the grouped value is the amount's own quantity
    region = B + "model::merge_grouped_quantities"
    fs = F.region_funcs(region)
    if not fs:
        chk.fail("anchor-missing", "merge_grouped_quantities", "", "anchor-missing")
        return
    entries = [(g, b, t) for g in fs for b, t in calls_to(g, "HashMap::<K, V, S, A>::entry")]
    ok = len(entries) == 1
    if ok:
        g, b, t = entries[0]
        ktxt = full(arg_expr(g, t, 1))
        kl = leaves(arg_expr(g, t, 1))
        recv = full(arg_expr(g, t, 0))
        # key is a clone of the closure's incoming (key, value) element: no lookup in `left` decides it
        ok = "left" in recv and ktxt.startswith("Clone>::clone(") and not any(x in ktxt for x in ("keys(", "iter(", "find(", "get(", "left")) \
            and any(l.startswith("param:") or l.startswith("upvar:key") for l in kl)
        chk.expect(ok, "C19.D4-merge", "merge|bucket key", g.where(b),
                   f"the bucket to merge into must be looked up with the incoming key itself; it is looked up with {ktxt[:120]}",
                   sample=f"left.entry({ktxt[:40]})")
    else:
        chk.fail("C19.D4-merge", "merge|bucket key", "", f"merge_grouped_quantities must address the bucket through one HashMap::entry call ({len(entries)})")
    # other reads of `left` that could choose a different bucket
    for g in fs:
        for b, t in g.calls():
            ck = callee_key(t) or ""
            if re.search(r"HashMap::<K, V, S, A>::(keys|iter|iter_mut|get|get_mut|contains_key|values|values_mut|remove)$", ck) and "left" in full(arg_expr(g, t, 0)):
                chk.fail("C19.D4-merge", f"merge|extra lookup {ck.rsplit('::', 1)[-1]}", g.where(b),
                         f"merge_grouped_quantities inspects `left` through {ck.rsplit('::', 1)[-1]}() besides entry(key): amounts with different keys could be combined")
    adds = [(g, b, t) for g in fs for b, t in g.calls() if (callee_key(t) or "").endswith("::add_assign")]
    chk.floor("C19.D4-merge", "add_assign in merge arms", len(adds), 4)
    for g, b, t in adds:
        a0, a1 = full(arg_expr(g, t, 0)), full(arg_expr(g, t, 1))
        m0 = re.search(r"\(\*v\) as (\w+)\.(\w+)", a0)
        m1 = re.search(r"value\) as (\w+)\.(\w+)", a1)
        ok = bool(m0 and m1) and m0.groups() == m1.groups()
        chk.expect(ok, "C19.D4-merge", f"merge|{m0.group(1) + '.' + m0.group(2) if m0 else a0[:20]}", g.where(b),
                   f"a merge arm must add the incoming field into the same stored field; it does {a0[:50]} += {a1[:50]}", sample=f"stored.{m0.group(2) if m0 else '?'} += incoming.{m1.group(2) if m1 else '?'}")
    # or_insert(value.clone())
    oi = [(g, b, t) for g in fs for b, t in calls_to(g, "or_insert")]
    chk.expect(len(oi) == 1 and "Clone>::clone(" in full(arg_expr(oi[0][0], oi[0][2], 1)), "C19.D4-merge", "merge|or_insert", "",
               "a key that is not present yet must be inserted with a clone of the incoming value", sample="entry(key).and_modify(add).or_insert(value.clone())")
    f = F.funcs.get(B + "combine_ingredients")
    if f is not None:
        cs = calls_to(f, "combine_ingredients_selected")
        ok = len(cs) == 1
        if ok:
            a = full(arg_expr(f, cs[0][1], 1))
            ok = "Range{start: 0, end: <impl [T]>::len(&(*ingredients))}" in a and full(arg_expr(f, cs[0][1], 0)) == "&(*ingredients)"
        chk.expect(ok, "C19.D4-merge", "combine_ingredients", f"{f.file}:{f.line}", "combine_ingredients must be combine_ingredients_selected over 0..ingredients.len()",
                   sample="combine_ingredients = combine_ingredients_selected(ingredients, 0..len)")
    f = F.funcs.get(B + "model::expand_with_ingredients")
    if f is not None:
        adds = calls_to(f, "model::add_to_ingredient_list")
        ok = len(adds) == 1 and in_loop(f, adds[0][0])
        if ok:
            for scc in f.sccs():
                if adds[0][0] in scc:
                    ok, _ = acyclic_without(f, scc, {adds[0][0]})
            b, t = adds[0]
            a = [full(arg_expr(f, t, i)) for i in range(3)]
            ok = ok and a[0] == "&(*base)" and ".name" in a[1] and "into_group_quantity" in a[2] and ".amount" in a[2] and "addition" in a[1]
        chk.expect(ok, "C19.D4-merge", "expand_with_ingredients", f"{f.file}:{f.line}",
                   "every listed index must be folded exactly once: add_to_ingredient_list(base, &ingredient.name, &into_group_quantity(&ingredient.amount))",
                   sample="for index in addition { add_to_ingredient_list(base, name, group(amount)) }")
    f = F.funcs.get(B + "model::add_to_ingredient_list")
    if f is not None:
        gm = calls_to(f, "HashMap::<K, V, S, A>::get_mut")
        mg = calls_to(f, "model::merge_grouped_quantities")
        ins = calls_to(f, "HashMap::<K, V, S, A>::insert")
        ok = len(gm) == 1 and len(mg) == 1 and len(ins) == 1
        if ok:
            somes = [tgt for _, tgt in option_some_edges(f, gm[0][1]["dest"]["l"])]
            ok = bool(somes) and mg[0][0] in f.reach_from(somes[0]) and ins[0][0] not in f.reach_from(somes[0])
            ok = ok and "quantity_to_add" in full(arg_expr(f, mg[0][1], 1)) and "quantity_to_add" in full(arg_expr(f, ins[0][1], 2)) and "name" in full(arg_expr(f, ins[0][1], 1))
        chk.expect(ok, "C19.D4-merge", "add_to_ingredient_list", f"{f.file}:{f.line}",
                   "add_to_ingredient_list must merge into the existing entry of that name, or insert the quantity under that name",
                   sample="get_mut(name): Some → merge(quantity_to_add); None → insert(name, quantity_to_add.clone())")
