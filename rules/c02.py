"""C02 — core-syntax recipes parse identically under every extension subset.

Decided clauses (structural necessary conditions):
  D1  every construct that implements an extension's special reading is dominated by the
      "flag is set" outcome of a test of *its own* flag (tables/gates.toml);
  D2  the reads of an Extensions value that can influence control flow are exactly the
      reviewed gate sites (confinement);
  D3  the Extensions value handed to the pull parser, the analysis and sub-block parsers is
      the configured one, never a constant;
  D4  the flag constants have the documented bit layout.
Not decided: that guarded code is a no-op on core syntax, or that ungated code reads
extension syntax as plain text (both are parse results)."""
from __future__ import annotations

import os
import re
import tomllib
from collections import Counter, defaultdict

import harness
from facts import Facts, callee_key, callee_def, norm, region_of, rvalue_operands
from flow import resolve, leaves, show, walk
from gates import Gating, ext_method, flag_of_operand, CONSTRUCTORS
from c03 import _suffix

FLAGS = ["COMPONENT_MODIFIERS", "COMPONENT_ALIAS", "ADVANCED_UNITS", "MODES", "INLINE_QUANTITIES", "RANGE_VALUES",
         "TIMER_REQUIRES_TIME", "INTERMEDIATE_PREPARATIONS"]


def select(F: Facts, region: str, selector: str):
    """Occurrences of a construct in a function region: list of (func, block, description)."""
    kind, _, arg = selector.partition(":")
    out = []
    for f in F.region_funcs(region):
        if kind == "call":
            for b, t in f.calls():
                if _suffix(callee_key(t) or "", arg) or _suffix(callee_def(t) or "", arg):
                    out.append((f, b, f"call {arg} at {f.where(b)}"))
        elif kind == "fnref":
            for ek, tgt, b, t in F.call_edges(f):
                if ek == "fnref" and _suffix(tgt, arg):
                    out.append((f, b, f"reference to fn {arg} at {f.file}:{t.get('line')}"))
        elif kind == "agg":
            adt, _, variant = arg.rpartition("::")
            for i, j, s in f.iter_stmts():
                rv = s.get("rv", {})
                if rv.get("k") == "agg" and rv.get("agg") == "adt" and norm(rv["adt"]).endswith(adt) and rv["variant"] == variant:
                    out.append((f, i, f"construction of {arg} at {f.file}:{s.get('line')}"))
        elif kind == "assign-field":
            for i, j, s in f.iter_stmts():
                if s["k"] == "assign" and s["place"]["p"] and s["place"]["p"][-1] == "." + arg:
                    out.append((f, i, f"assignment to .{arg} at {f.file}:{s.get('line')}"))
        elif kind == "assign":
            for i, j, s in f.iter_stmts():
                if s["k"] == "assign" and not s["place"]["p"] and f.local_name(s["place"]["l"]) == arg:
                    out.append((f, i, f"assignment to {arg} at {f.file}:{s.get('line')}"))
            for b, t in f.calls():
                if not t["dest"]["p"] and f.local_name(t["dest"]["l"]) == arg:
                    out.append((f, t.get("target", b), f"assignment to {arg} (call result) at {f.where(b)}"))
        elif kind == "assign-ret":
            for i, j, s in f.iter_stmts():
                if s["k"] == "assign" and not s["place"]["p"] and s["place"]["l"] == 0:
                    out.append((f, i, f"assignment to the return value at {f.file}:{s.get('line')}"))
        else:
            raise ValueError(selector)
    return out


def run(chk: harness.Check):
    paths, th = harness.mir_facts("Q")
    F = Facts(paths)
    with open(os.path.join(harness.VERIF, "tables", "gates.toml"), "rb") as fh:
        tab = tomllib.load(fh)
    G = Gating(F)
    chk.explanation = (
        "Gate analysis on the MIR of the current tree: (D1) each construct implementing an extension's special reading "
        "(token-consuming calls of the modifier scanner, intermediate-reference parsing, alias splitting, the timer-requires-time "
        "diagnostic, advanced quantity parsing and unit checks, Value::Range construction, mode assignments, inline quantity search) "
        "is edge-dominated by the flag-set outcome of a test of its own flag — through if/early-return/&&, bool::then closures and "
        "call sites; (D2) the set of control-relevant reads of an Extensions value equals the reviewed table; (D3) Extensions "
        "arguments handed to PullParser::new / parse_events / BlockParser::new come from the configured field, never from a constant; "
        "(D4) flag constants have the documented bit layout; (D8) nothing that parse_advanced_quantity runs builds a Value::Text, so a quantity whose value is not numeric keeps the core reading in every subset; (D9) numeric_value matches the number shapes against ALL significant tokens of the value (the collecting chain never truncates). Necessary conditions only: parse results are not decided.")
    chk.trusted = ["rustc MIR; bitflags-generated Extensions methods trusted by origin", "tables/gates.toml (reviewed gate sites)"]
    chk.analysed = {"facts": th, "gate_reads": len(G.gates), "wrappers": sorted(G.wrappers), "other_reads": len(G.other_reads)}

    # ---- D2 confinement ------------------------------------------------------------------
    table = {(g["function"], g["flag"]): g for g in tab.get("gate", [])}
    seen = Counter()
    for g in G.gates:
        seen[(region_of(g.f.key), g.flag)] += 1
    for (region, flag), n in sorted(seen.items()):
        e = table.get((region, flag))
        key = f"{region}|{flag}"
        where = next(g.where for g in G.gates if region_of(g.f.key) == region and g.flag == flag)
        if e is None:
            chk.fail("C02.D2-confinement", key, where, f"unreviewed read of extension flag {flag} in {region}: a new place where parsing depends on the flag")
        elif n > e["count"]:
            chk.fail("C02.D2-confinement", key, where, f"{n} reads of {flag} in {region}, reviewed table has {e['count']}")
        else:
            chk.ok("C02.D2-confinement", key, f"{where}: {n} read(s) of {flag} — {e['reason']}")
    for (region, flag), e in sorted(table.items()):
        if seen[(region, flag)] < e["count"]:
            chk.fail("C02.D1-gate-present", f"{region}|{flag}", "", f"the {flag} gate of {region} is gone ({seen[(region, flag)]} of {e['count']} reads left): "
                     f"its constructs now run under every extension set — {e['reason']}")
    for f, b, t, m in G.other_reads:
        chk.fail("C02.D2-confinement", f"{region_of(f.key)}|{m}", f.where(b),
                 f"read of an Extensions value through `{m}` in {f.key}: not a test of one constant flag")
    # comparison operators on Extensions (PartialEq derive) in non-generated code
    for k, f in F.funcs.items():
        if f.generated or f.crate != "cooklang":
            continue
        for b, t in f.calls():
            ck = callee_key(t) or ""
            if re.search(r"<Extensions as std::cmp::(PartialEq|PartialOrd|Ord)>::", ck):
                chk.fail("C02.D2-confinement", f"{region_of(k)}|cmp", f.where(b), f"comparison of an Extensions value in {k}")
    chk.floor("C02.D2-confinement", "gate reads", len(G.gates), 13)

    # ---- D1 dominance -----------------------------------------------------------------------
    for (region, flag), e in sorted(table.items()):
        if not any(f.key == region for f in F.region_funcs(region)):
            chk.fail("anchor-missing", f"{region}", "", f"anchor-missing: gate function {region} not found")
            continue
        for sel in e.get("guarded", []):
            occ = [o for alt in sel.split("|") for o in select(F, region, alt)]      # `a|b`: equivalent spellings of one construct
            key = f"{region}|{flag}|{sel}"
            if not occ:
                chk.fail("anchor-missing", key, "", f"anchor-missing: construct `{sel}` guarded by {flag} no longer occurs in {region}")
                continue
            for f, b, desc in occ:
                ok, why = G.gated(f, b, flag)
                chk.expect(ok, "C02.D1-dominance", key + f"@{f.key.replace(region, '')}", f.where(b),
                           f"{desc} implements {flag} but is not guarded by a test of that flag ({why})",
                           sample=f"{desc}: {why}")
        for sel in e.get("present", []):
            occ = select(F, region, sel)
            key = f"{region}|{flag}|present:{sel}"
            hits = [(f, b, desc) for f, b, desc in occ if G.gated(f, b, flag)[0]]
            chk.expect(bool(hits), "C02.D1-polarity", key, hits[0][0].where(hits[0][1]) if hits else "",
                       f"the flag-set branch of the {flag} gate in {region} no longer contains `{sel}`: gate inverted or emptied",
                       sample=(hits[0][2] + ": " + G.gated(hits[0][0], hits[0][1], flag)[1]) if hits else None)
        if e.get("effective"):
            # the gate result must control something
            gs = [g for g in G.gates if region_of(g.f.key) == region and g.flag == flag]
            for g in gs:
                chk.expect(g.uses > 0, "C02.D1-effective", f"{region}|{flag}|used", g.where,
                           f"result of the {flag} test in {region} is not used by any branch or bool::then",
                           sample=f"{g.where}: result drives {g.uses} branch(es)/then-closure(s)")

    # ---- D5 core separator precedence ---------------------------------------------------------
    d5_core_separator(chk, F)
    d6_inline_same_text(chk, F)
    d7_range_partition(chk, F)
    d8_advanced_numeric(chk, F)
    d9_numeric_whole(chk, F)

    # ---- D3 propagation -----------------------------------------------------------------------
    allow_const = {a["function"]: a for a in tab.get("constant_extensions", [])}
    n_prop = 0
    for k, f in F.funcs.items():
        if f.generated or f.crate != "cooklang":
            continue
        for b, t in f.calls():
            ck = callee_key(t) or ""
            if ext_method(ck) is not None or ck in G.wrappers:
                continue
            for idx, a in enumerate(t.get("args", [])):
                p = a.get("copy") or a.get("move")
                ty = ""
                if p is not None and not p["p"]:
                    ty = f.local_ty(p["l"])
                elif "const" in a:
                    ty = a["const"].get("ty", "")
                if ty != "Extensions":
                    continue
                n_prop += 1
                e = resolve(f, a)
                ls = leaves(e)
                consts = sorted(l for l in ls if l.startswith("const:") or l.startswith("lit:") or re.search(r"Extensions>::(all|empty|default|from_bits\w*)$", l))
                key = f"{region_of(k)}|{_short(ck)}|arg{idx}"
                if consts and region_of(k) not in allow_const:
                    chk.fail("C02.D3-propagation", key, f.where(b),
                             f"{k} passes a constant extension set ({', '.join(consts)}) to {_short(ck)} instead of the configured one")
                elif consts:
                    chk.ok("C02.D3-propagation", key, f"{f.where(b)}: constant allowed — {allow_const[region_of(k)]['reason']}")
                else:
                    chk.ok("C02.D3-propagation", key, f"{f.where(b)}: {_short(ck)} receives {show(e)}")
        # struct literals holding Extensions
        for i, j, s in f.iter_stmts():
            rv = s.get("rv", {})
            if rv.get("k") == "agg" and rv.get("agg") == "adt":
                for fname, op in zip(rv["fields"], rv["ops"]):
                    if fname != "extensions":
                        continue
                    n_prop += 1
                    e = resolve(f, op)
                    ls = leaves(e)
                    consts = sorted(l for l in ls if l.startswith("const:") or l.startswith("lit:") or re.search(r"Extensions>::(all|empty|default|from_bits\w*)$", l))
                    key = f"{region_of(k)}|{norm(rv['adt']).split('::')[-1]}.extensions"
                    if consts and region_of(k) not in allow_const:
                        chk.fail("C02.D3-propagation", key, f"{f.file}:{s.get('line')}",
                                 f"{k} stores a constant extension set ({', '.join(consts)}) in {norm(rv['adt'])}.extensions")
                    else:
                        chk.ok("C02.D3-propagation", key, f"{f.file}:{s.get('line')}: {norm(rv['adt']).split('::')[-1]}.extensions = {show(e)}")
    chk.floor("C02.D3-propagation", "Extensions hand-offs", n_prop, 7)

    # ---- D4 bit layout ------------------------------------------------------------------------
    bits = {}
    for fl in FLAGS + ["COMPAT"]:
        c = F.consts.get(f"cooklang::Extensions::{fl}")
        if c is None or "bits" not in c:
            chk.fail("anchor-missing", f"const {fl}", "", f"anchor-missing: Extensions::{fl} not found among evaluated constants")
        else:
            bits[fl] = int(c["bits"])
    if len(bits) == len(FLAGS) + 1:
        for i, a in enumerate(FLAGS):
            for b in FLAGS[i + 1:]:
                inter = bits[a] & bits[b]
                documented = {a, b} == {"INTERMEDIATE_PREPARATIONS", "COMPONENT_MODIFIERS"}
                if documented:
                    chk.expect(inter == bits["COMPONENT_MODIFIERS"], "C02.D4-bits", f"{a}&{b}", "src/lib.rs",
                               "INTERMEDIATE_PREPARATIONS no longer includes exactly COMPONENT_MODIFIERS",
                               sample=f"{a}={bits[a]:#x} ⊇ {b}={bits[b]:#x}")
                else:
                    chk.expect(inter == 0, "C02.D4-bits", f"{a}&{b}", "src/lib.rs",
                               f"flags {a} ({bits[a]:#x}) and {b} ({bits[b]:#x}) share bits: enabling one enables part of the other",
                               sample=f"{a}={bits[a]:#x} {b}={bits[b]:#x} disjoint")
        own = bits["INTERMEDIATE_PREPARATIONS"] & ~bits["COMPONENT_MODIFIERS"]
        chk.expect(own != 0 and bin(own).count("1") == 1, "C02.D4-bits", "INTERMEDIATE own bit", "src/lib.rs",
                   "INTERMEDIATE_PREPARATIONS has no bit of its own", sample=f"own bit {own:#x}")
        union = 0
        for fl in FLAGS:
            if fl != "TIMER_REQUIRES_TIME":
                union |= bits[fl]
        chk.expect(bits["COMPAT"] == union, "C02.D4-bits", "COMPAT", "src/lib.rs",
                   f"COMPAT ({bits['COMPAT']:#x}) is not the union of all flags except TIMER_REQUIRES_TIME ({union:#x})",
                   sample=f"COMPAT={bits['COMPAT']:#x}")
        for fl in FLAGS:
            chk.expect(bits[fl] != 0, "C02.D4-bits", f"{fl}!=0", "src/lib.rs", f"{fl} is zero: contains() is always true")


def _short(ck):
    from inventory import short
    return short(ck)


def d9_numeric_whole(chk, F):
    """A quantity value is a number only if ALL of it is a number (`{1 1/2 cups}` is text when no extension splits off the unit): the token
    sequence that numeric_value matches against the number shapes is every significant token of the value — the chain that collects it
    only filters blanks and comments, it never truncates (take / skip / step_by / …), otherwise a longer value matches by its prefix
    and what follows is dropped, differently under different extension sets."""
    fs = [g for g in F.find("parser::quantity::numeric_value") if not g.is_closure()]
    if len(fs) != 1:
        chk.fail("anchor-missing", "numeric_value", "", "anchor-missing: parser::quantity::numeric_value not found")
        return
    f = fs[0]
    R = "C02.D9-numeric-whole"
    cols = [(b, t) for b, t in f.calls() if (callee_key(t) or "").endswith(("Iterator::collect", "Iterator>::collect", "FromIterator>::from_iter", "Extend<T>>::extend"))]
    chk.floor(R, "token collections in numeric_value", len(cols), 1, f"{f.file}:{f.line}")
    for b, t in cols:
        names = sorted({n[1].rsplit("::", 1)[-1] for n in walk(resolve(f, t["args"][-1] if (callee_key(t) or "").endswith("extend") else t["args"][0])) if n[0] == "call"})
        cut = [n for n in names if n in ("take", "take_while", "skip", "skip_while", "step_by", "nth", "map_while", "chunks", "windows", "first", "last", "get", "split_at", "split_first", "split_last")]
        chk.expect(not cut, R, "numeric_value|all significant tokens", f.where(b),
                   f"the tokens matched against the number shapes are cut with {cut}: a value that merely STARTS like a number would be read as that number",
                   sample=f"{f.where(b)}: collected through {names}")


def d8_advanced_numeric(chk, F):
    """`{a few words}` and `{1,5 dl}` are core syntax: one text value. The ADVANCED_UNITS reading may only take a quantity over
    when its value part is a number or a range — nothing that parse_advanced_quantity runs (resolved calls, closures) builds a
    `Value::Text`, so a quantity whose value is not numeric falls back to the regular reading in every extension subset."""
    from cfgq import aggregates
    fs = [g for g in F.find("parser::quantity::parse_advanced_quantity") if not g.is_closure()]
    if len(fs) != 1:
        chk.fail("anchor-missing", "parse_advanced_quantity", "", "anchor-missing: parser::quantity::parse_advanced_quantity not found")
        return
    root = fs[0]
    seen, work, via = set(), [g.key for g in F.region_funcs(root.key)], {}
    while work:
        k = work.pop()
        if k in seen or k not in F.funcs or F.funcs[k].crate != root.crate:
            continue
        seen.add(k)
        for kind, tgt, _, _ in F.call_edges(F.funcs[k]):
            if kind != "cha" and tgt not in seen:
                via.setdefault(tgt, k)
                work.append(tgt)
    numeric = [k for k in seen if k.endswith(("parser::quantity::numeric_value", "parser::quantity::range_value"))]
    chk.floor("C02.D8-advanced-numeric", "numeric readers reached from parse_advanced_quantity", len(numeric), 2, f"{root.file}:{root.line}")
    bad = []
    for k in sorted(seen):
        g = F.funcs[k]
        for i, j, st in g.iter_stmts():
            rv = st.get("rv", {})
            if rv.get("k") == "agg" and rv.get("agg") == "adt" and norm(rv["adt"]).endswith("quantity::Value") and rv.get("variant") == "Text":
                bad.append((g, st))
    for g, st in bad:
        chain, k = [], g.key
        while k in via and len(chain) < 6:
            chain.append(_short(k))
            k = via[k]
        chk.fail("C02.D8-advanced-numeric", f"parse_advanced_quantity|{region_of(g.key)}", f"{g.file}:{st.get('line')}",
                 f"the ADVANCED_UNITS reading can produce a text value ({' ← '.join(chain) or _short(g.key)}): a core quantity whose value is "
                 "not a number, e.g. `{1,5 dl}`, is then split into value and unit only when the extension is on")
    if not bad:
        chk.ok("C02.D8-advanced-numeric", "parse_advanced_quantity|no-text", f"{root.file}:{root.line}: {len(seen)} functions reachable from "
               "parse_advanced_quantity, none builds Value::Text")


def d7_range_partition(chk, F):
    """Under RANGE_VALUES a value is a range only if EVERYTHING before the first `-` and EVERYTHING after it is a number:
    the two slices handed to numeric_value in range_value partition the token slice at one position (split_at / split_first /
    range indexing), they are not the first two pieces of a `split` iterator (which would silently drop `-1` from `3-2-1`)."""
    from flow import resolve, leaves
    fs = [g for g in F.find("parser::quantity::range_value") if not g.is_closure()]
    if len(fs) != 1:
        chk.fail("anchor-missing", "range_value", "", "anchor-missing: parser::quantity::range_value not found")
        return
    f = fs[0]
    calls = [(b, t) for b, t in f.calls() if (callee_key(t) or "").endswith("parser::quantity::numeric_value")]
    chk.floor("C02.D7-range-partition", "numeric_value calls in range_value", len(calls), 2, f"{f.file}:{f.line}")
    for n, (b, t) in enumerate(calls):
        ls = leaves(resolve(f, t["args"][0]))
        cs = {l[5:].rsplit("::", 1)[-1] for l in ls if l.startswith("call:")}
        part = bool(cs & {"split_at", "split_first", "split_last", "index"})
        piece = bool(cs & {"next", "nth", "next_back", "splitn", "split", "rsplit"})
        chk.expect(part and not piece and "param:tokens" in ls, "C02.D7-range-partition", f"range_value|operand#{n}", f.where(b),
                   f"a range operand is taken from {sorted(cs)}: the operands must be the two sides of ONE cut of the value's tokens, otherwise text such as "
                   "`3-2-1` becomes a range when RANGE_VALUES is on and stays text when it is off",
                   sample=f"{f.where(b)}: operand = one side of split_at(first `-`)")


def d6_inline_same_text(chk, F):
    """With and without INLINE_QUANTITIES a step text without a quantity phrase must come out as the same single item:
    every Item::Text built in in_step — in the gated arm and in the plain arm — is cut from the one joined string
    `text.text()` of the event (never from individual fragments or another rendering)."""
    from cfgq import aggregates
    from flow import resolve, leaves, show
    R = "cooklang::analysis::event_consumer::RecipeCollector::in_step"
    if R not in F.funcs:
        chk.fail("anchor-missing", "in_step", "", "anchor-missing: RecipeCollector::in_step not found")
        return
    sites = aggregates(F, R, "model::Item", "Text")
    chk.floor("C02.D6-inline-same-text", "Item::Text constructions", len(sites), 2)
    ALLOWED = ("text::Text::text", "ToString>::to_string", "AsRef<T>>::as_ref", "event_consumer::find_inline_quantity", "Cow::<B>::into_owned",
               "Deref>::deref", "Into<U>>::into", "From<T>>::from", "ToOwned>::to_owned", "Clone>::clone", "String::as_str", "Borrow<T>>::borrow")
    for ff, i, st, d in sites:
        e = resolve(ff, d["value"])
        calls = [l[5:] for l in leaves(e) if l.startswith("call:")]
        extra = [c for c in calls if not any(c.endswith(a) for a in ALLOWED)]
        ok = any(c.endswith("text::Text::text") for c in calls) and not extra
        chk.expect(ok, "C02.D6-inline-same-text", f"in_step|Item::Text#{sites.index((ff, i, st, d))}", f"{ff.file}:{st.get('line')}",
                   f"a text item is not cut from the joined step text `text.text()` (lineage: {sorted(set(calls))[:5]}): with and without "
                   "INLINE_QUANTITIES the same core step would be split into different items",
                   sample=f"{ff.file}:{st.get('line')}: Item::Text ← slice/copy of text.text()")


def d5_core_separator(chk, F):
    """`{value%unit}` is core syntax: the ADVANCED_UNITS reading must decline whenever the quantity
    contains a `%` token anywhere, before it consumes anything."""
    from cfgq import calls_to, call_result_edges, arg_expr
    fs = [f for f in F.find("parser::quantity::parse_advanced_quantity") if not f.is_closure()]
    if len(fs) != 1:
        chk.fail("anchor-missing", "parse_advanced_quantity", "", "anchor-missing: parse_advanced_quantity not found")
        return
    f = fs[0]
    scans = []
    for b, t in calls_to(f, "Iterator>::any"):
        recv = arg_expr(f, t, 0)
        ls = leaves(recv)
        whole = any(l.endswith("BlockParser::tokens") for l in ls) and not any(
            l.endswith(("consume_while", "consume_rest", "BlockParser::rest", "BlockParser::parsed", "BlockParser::until")) for l in ls)
        pred = [n[2] for n in walk(arg_expr(f, t, 1)) if n[0] == "agg" and n[1] == "closure"]
        tests_percent = False
        for pk in pred:
            pf = F.funcs.get(pk)
            if pf is None:
                continue
            # matches!(t.kind, T![%]) lowers to a switch on the TokenKind discriminant with a Percent arm
            for i, j, st in pf.iter_stmts():
                rv = st.get("rv", {})
                if rv.get("k") == "discr" and norm(rv.get("ty", "")).endswith("TokenKind"):
                    val = [v[0] for v in rv["variants"] if v[1] == "Percent"]
                    for sb, sw in pf.iter_terms("switch"):
                        if val and any(x[0] == val[0] for x in sw["targets"]):
                            tests_percent = True
        if whole and tests_percent:
            scans.append((b, t))
    if not scans:
        chk.fail("C02.D5-core-separator", "parse_advanced_quantity|scan", f"{f.file}:{f.line}",
                 "parse_advanced_quantity no longer scans the whole quantity (bp.tokens()) for a `%` token before parsing: "
                 "core `{value%unit}` quantities could be re-read under ADVANCED_UNITS")
        return
    b, t = scans[0]
    te, fe = call_result_edges(f, b)
    consumers = []
    for suffix in ("BlockParser::consume_while", "BlockParser::consume_rest", "BlockParser::ws_comments", "quantity::scaling_lock",
                   "BlockParser::bump_any", "BlockParser::consume", "BlockParser::until"):
        consumers += [cb for cb, _ in calls_to(f, suffix)]
    ok = bool(fe) and bool(consumers) and all(any(f.edge_dominates(e, cb) for e in fe) for cb in consumers)
    chk.expect(ok, "C02.D5-core-separator", "parse_advanced_quantity|precedence", f.where(b),
               "the advanced-units reading consumes tokens on a path where a `%` separator was not excluded for the whole quantity",
               sample=f"{f.where(b)}: every consuming call is dominated by the no-`%` outcome of the scan over bp.tokens()")
    # the `%`-present outcome returns None without consuming
    some = [i for i, j, st in f.iter_stmts() if st["k"] == "assign" and st["place"]["l"] == 0 and st["rv"].get("k") == "agg" and st["rv"].get("variant") == "Some"]
    reach = f.reach_from(te[0][1]) if te else set()
    chk.expect(bool(te) and not any(x in reach for x in some + consumers), "C02.D5-core-separator", "parse_advanced_quantity|declines", f.where(b),
               "when a `%` token is present parse_advanced_quantity can still consume tokens or return Some",
               sample=f"{f.where(b)}: the `%`-present outcome returns None directly")
