"""Extension gates: find reads of an `Extensions` flag and decide whether a program point is
guarded by "flag E is set" (Dom / EdgeDom of DESIGN.md §3, plus the bool::then idiom and an
interprocedural step over call sites)."""
from __future__ import annotations

import re

from facts import Facts, Func, callee_key, norm, operand_local, operand_place, region_of
from flow import resolve, walk, leaves

FLAG_PATH = re.compile(r"^cooklang::Extensions::([A-Z_]+)$")
EXT_METHOD = re.compile(r"^cooklang::(_::)?<impl Extensions>::(\w+)$|^cooklang::<Extensions as ([^>]+)>::(\w+)$")
CONSTRUCTORS = {"all", "empty", "default", "from_bits", "from_bits_truncate", "from_bits_retain", "from_name"}
THEN = re.compile(r"^core::bool::<impl bool>::(then|then_some)$")


def ext_method(ck: str):
    m = EXT_METHOD.match(ck or "")
    if not m:
        return None
    return m.group(2) or m.group(4)


def flag_of_operand(op):
    c = op.get("const")
    if c and c.get("ty") == "Extensions" and "path" in c:
        m = FLAG_PATH.match(norm(c["path"]))
        if m:
            return m.group(1)
    return None


def discover_wrappers(F: Facts):
    """Functions whose return value is exactly `Extensions::contains(<something of self>, <param>)`:
    calling them with a constant flag is a gate (today: BlockParser::extension)."""
    out = {}
    for k, f in F.funcs.items():
        if f.generated or f.crate != "cooklang" or f.is_closure():
            continue
        calls = list(f.calls())
        if len(calls) != 1:
            continue
        b, t = calls[0]
        if ext_method(callee_key(t)) != "contains":
            continue
        # returned directly
        if t["dest"]["l"] != 0 or t["dest"]["p"]:
            continue
        e = resolve(f, t["args"][1])
        if e[0] == "param":
            out[k] = e[1] - 1  # index into the caller's args
    return out


class Gate:
    def __init__(self, f: Func, block: int, term, flag, via):
        self.f, self.block, self.term, self.flag, self.via = f, block, term, flag, via
        self.true_edges = []     # (b, s): edges taken when the flag is set
        self.false_edges = []
        self.then_closures = []  # closure keys run only when the flag is set
        self.uses = 0

    @property
    def where(self):
        return f"{self.f.file}:{self.term.get('line')}"


def find_gates(F: Facts, wrappers=None):
    wrappers = wrappers if wrappers is not None else discover_wrappers(F)
    gates = []
    other_reads = []
    for k, f in F.funcs.items():
        if f.generated or f.crate != "cooklang":
            continue
        if f.kind.startswith(("Const", "AssocConst", "Static", "AnonConst", "InlineConst")):
            continue
        for b, t in f.calls():
            ck = callee_key(t)
            if ck is None:
                continue
            m = ext_method(ck)
            if m is not None:
                if m in CONSTRUCTORS:
                    continue
                if k in wrappers:
                    continue  # the wrapper's own body
                flag = flag_of_operand(t["args"][1]) if m in ("contains", "intersects") and len(t["args"]) > 1 else None
                if m == "contains" and flag:
                    g = Gate(f, b, t, flag, "contains")
                    _trace(F, g)
                    gates.append(g)
                else:
                    other_reads.append((f, b, t, m))
            elif ck in wrappers:
                idx = wrappers[ck]
                flag = flag_of_operand(t["args"][idx]) if idx < len(t["args"]) else None
                if flag:
                    g = Gate(f, b, t, flag, "wrapper")
                    _trace(F, g)
                    gates.append(g)
                else:
                    other_reads.append((f, b, t, "wrapper:non-constant flag"))
    return gates, other_reads, wrappers


def _trace(F: Facts, g: Gate):
    """Follow the boolean result of the gate call to the branches / `then` closures it controls."""
    f = g.f
    d = g.term["dest"]
    if d["p"]:
        return
    work = [(d["l"], True)]
    seen = set()
    while work:
        l, pol = work.pop()
        if (l, pol) in seen:
            continue
        seen.add((l, pol))
        # switches on the local
        for b, t in f.iter_terms("switch"):
            if operand_local(t["discr"]) == l:
                zero = [x[1] for x in t["targets"] if x[0] == "0"]
                if not zero:
                    continue
                f_edge = (b, zero[0])
                t_edge = (b, t["otherwise"])
                if not pol:
                    f_edge, t_edge = t_edge, f_edge
                g.true_edges.append(t_edge)
                g.false_edges.append(f_edge)
                g.uses += 1
        # copies / negations
        for i, j, s in f.iter_stmts():
            if s["k"] != "assign" or s["place"]["p"]:
                continue
            rv = s["rv"]
            if rv["k"] == "use" and operand_local(rv["op"]) == l:
                work.append((s["place"]["l"], pol))
            elif rv["k"] == "un" and rv["op"] == "Not" and operand_local(rv["x"]) == l:
                work.append((s["place"]["l"], not pol))
        # bool::then(flag, closure)
        for b, t in f.calls():
            ck = callee_key(t) or ""
            if THEN.match(ck) and t["args"] and operand_local(t["args"][0]) == l and pol:
                g.uses += 1
                if len(t["args"]) > 1:
                    e = resolve(f, t["args"][1])
                    for n in walk(e):
                        if n[0] == "agg" and n[1] == "closure":
                            g.then_closures.append(n[2])


class Gating:
    def __init__(self, F: Facts):
        self.F = F
        self.gates, self.other_reads, self.wrappers = find_gates(F)
        self.by_func = {}
        for g in self.gates:
            self.by_func.setdefault(g.f.key, []).append(g)
        self._closure_sites = None

    def closure_site(self, ck):
        """(parent func, block) where closure `ck` is created."""
        if self._closure_sites is None:
            d = {}
            for k, f in self.F.funcs.items():
                for i, j, s in f.iter_stmts():
                    if s["k"] == "assign" and s["rv"]["k"] == "agg" and s["rv"].get("agg") == "closure":
                        d[norm(s["rv"]["closure"])] = (f, i)
            self._closure_sites = d
        return self._closure_sites.get(ck)

    def gated(self, f: Func, block: int, flag: str, depth=0, trail=None):
        """Is `block` of `f` executed only when `flag` is set?  Returns (bool, explanation)."""
        trail = trail or []
        if depth > 6:
            return False, "depth"
        for g in self.by_func.get(f.key, []):
            if not flag_implies(g.flag, flag):
                continue
            for e in g.true_edges:
                if f.edge_dominates(e, block):
                    return True, f"dominated by the flag-set edge of the {g.flag} gate at {g.where}"
        # value-carried gate: `let x = if gate { Some(..) } else { None }; if let Some(..) = x { construct }` — no path reaches the
        # construct without having seen a flag test succeed (path-sensitive, constants and enum variants propagated)
        dests = [g.term["dest"]["l"] for g in self.by_func.get(f.key, []) if flag_implies(g.flag, flag) and g.term.get("k") == "call"
                 and not g.term["dest"]["p"]]
        if dests:
            from cfgq import path_without_success
            if path_without_success(f, block, dests) is None:
                return True, "every path to it has seen the flag test succeed (value-carried gate)"
        if f.is_closure():
            # then-closure of a gate of the right flag
            for gs in self.by_func.values():
                for g in gs:
                    if flag_implies(g.flag, flag) and f.key in g.then_closures:
                        return True, f"closure passed to bool::then on the {g.flag} gate at {g.where}"
            site = self.closure_site(f.key)
            if site is not None:
                pf, pb = site
                ok, why = self.gated(pf, pb, flag, depth + 1, trail + [f.key])
                if ok:
                    return True, f"closure created at a point that is {why}"
            return False, "closure is created at an ungated point"
        # interprocedural: every call site / reference of f is gated
        callers = [(cf, kind, b) for cf, kind, b, t in self.F.callers_of(f.key) if not cf.generated and cf.key != f.key]
        if not callers or f.key in trail:
            return False, "no gate in this function"
        whys = []
        for cf, kind, b in callers:
            ok, why = self.gated(cf, b, flag, depth + 1, trail + [f.key])
            if not ok:
                return False, f"reachable from the ungated call site {cf.key} ({cf.where(b)})"
            whys.append(why)
        return True, f"all {len(callers)} call site(s) gated ({whys[0]})"


# INTERMEDIATE_PREPARATIONS ⊇ COMPONENT_MODIFIERS: contains(INTERMEDIATE) implies MODIFIERS set
IMPLIES = {"INTERMEDIATE_PREPARATIONS": {"COMPONENT_MODIFIERS"}}


def flag_implies(gate_flag, wanted):
    return gate_flag == wanted or wanted in IMPLIES.get(gate_flag, ())
