"""Tiny parser for rustc's printed types: enough to enumerate the named types in a type."""
import re

_ID = re.compile(r"[A-Za-z_][A-Za-z_0-9]*(::[A-Za-z_][A-Za-z_0-9]*)*")


def type_names(ty: str):
    """All path-like names occurring in a printed type, e.g.
    'std::vec::Vec<std::sync::Arc<convert::Unit>>' -> [std::vec::Vec, std::sync::Arc, convert::Unit]"""
    out = []
    for m in _ID.finditer(ty):
        n = m.group(0)
        if n in ("dyn", "mut", "const", "as", "for", "impl", "fn", "unsafe", "extern", "static"):
            continue
        out.append(n)
    return out


def split_generic(ty: str):
    """'A<B, C<D>>' -> ('A', ['B', 'C<D>'])"""
    i = ty.find("<")
    if i < 0 or not ty.endswith(">"):
        return ty, []
    head = ty[:i]
    inner = ty[i + 1:-1]
    args = []
    depth = 0
    cur = ""
    for ch in inner:
        if ch in "<([":
            depth += 1
        elif ch in ">)]":
            depth -= 1
        if ch == "," and depth == 0:
            args.append(cur.strip())
            cur = ""
        else:
            cur += ch
    if cur.strip():
        args.append(cur.strip())
    return head, args
