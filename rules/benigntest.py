"""Silence test: behaviour-preserving edits (benign/*.patch) applied to a scratch copy must not raise any alarm
in any claimed check.  About the checker, not about /repo."""
import glob, json, os, shutil, subprocess, sys, tempfile
import harness

def main(only=None):
    man = json.load(open(os.path.join(harness.VERIF, "MANIFEST.json")))
    pids = [c["property_id"] for c in man["checks"]]
    root = os.environ.get("VERIF_SCRATCH", "/tmp")
    bad = 0
    rows = []
    lim_path = os.path.join(harness.VERIF, "benign", "KNOWN_LIMITATIONS.json")
    limits = json.load(open(lim_path)) if os.path.exists(lim_path) else {}
    for patch in sorted(glob.glob(os.path.join(harness.VERIF, "benign", "*.patch"))):
        if only and only not in patch:
            continue
        scratch = tempfile.mkdtemp(prefix="verif-benign-", dir=root)
        try:
            subprocess.run(["rsync", "-rlp", "--exclude", "target", "--exclude", ".git", harness.REPO + "/", scratch + "/"], check=True)
            r = subprocess.run(["patch", "-p1", "--no-backup-if-mismatch", "-s", "-i", patch], cwd=scratch, stdout=subprocess.PIPE, stderr=subprocess.STDOUT, text=True)
            if r.returncode != 0:
                rows.append((os.path.basename(patch), "skipped (tree differs)", []))
                continue
            env = dict(os.environ, VERIF_REPO=scratch, VERIF_EVIDENCE_DIR=os.path.join(scratch, ".evidence"))
            alarms = []
            for pid in pids:
                r = subprocess.run([os.path.join(harness.VERIF, "check"), pid], cwd=harness.VERIF, env=env, stdout=subprocess.PIPE, stderr=subprocess.STDOUT, text=True)
                if r.returncode != 0:
                    fired = [l.strip()[:200] for l in r.stdout.splitlines() if l.strip().startswith("[")] or [r.stdout[-300:]]
                    alarms.append((pid, r.returncode, fired[:3]))
            name = os.path.basename(patch)
            if alarms and name in limits and {a[0] for a in alarms} <= set(limits[name]["checks"]):
                rows.append((name, "known limitation", alarms))      # documented in DESIGN.md §12; not counted as silent
            else:
                rows.append((name, "silent" if not alarms else "FALSE ALARM", alarms))
                bad += bool(alarms)
        finally:
            shutil.rmtree(scratch, ignore_errors=True)
    for name, st, alarms in rows:
        print(f"{st:>22}  {name}")
        for a in alarms:
            print("        ", a)
    if not only:      # a filtered run does not overwrite the summary of the full run
        json.dump([{"patch": n, "status": s, "alarms": a} for n, s, a in rows], open(os.path.join(harness.VERIF, "selfcheck", "benign.json"), "w"), indent=1)
    return 1 if bad else 0

if __name__ == "__main__":
    sys.exit(main(sys.argv[1] if len(sys.argv) > 1 else None))
