"""C06 — the recipe model is referentially consistent.

Decided clauses (all in the region of analysis::event_consumer::RecipeCollector):
  D1  index provenance: an Item's index is the return value of the collector method that pushes
      to the same-kind table, and that method returns len(table) - 1 of the table it pushed to;
  D2  lock-step tables: content.X and locations.X are pushed exactly once on every path;
  D3  reference pairing and ordering: set_reference / set_referenced_from use the index found by
      the same-kind, non-REF search, once, before the push of the new component;
  D4  step counter discipline (reset per section, bumped per pushed step);
  D5  no empty section is pushed;
  D6  intermediate references are bounds-checked and taken from the step-filtered content list.
Not decided: name equality ignoring case, document order, emptiness of items, timers."""
from __future__ import annotations

import re

import harness
from facts import Facts, callee_key, norm, operand_local, region_of
from flow import resolve, resolve_place, resolve_rvalue, leaves, show, walk
from cfgq import (calls_to, region_calls_to, arg_leaves, arg_text, arg_expr, has_field, call_result_edges, variant_arm_blocks,
                  option_some_edges, assigns_to_field, aggregates, in_loop, must_pass, one)

R = "cooklang::analysis::event_consumer::RecipeCollector::"

KINDS = {
    "ingredient": dict(table=".content.ingredients", loc=".locations.ingredients", item="Ingredient", impl="model::Ingredient<quantity::ScalableValue>"),
    "cookware": dict(table=".content.cookware", loc=".locations.cookware", item="Cookware", impl="model::Cookware<quantity::ScalableValue>"),
    "timer": dict(table=".content.timers", loc=None, item="Timer", impl=None),
}


def full_text(e, depth=0):
    """show() without depth truncation (for containment tests)."""
    import flow
    return flow.show(e, -50)


def run(chk: harness.Check):
    paths, th = harness.mir_facts("Q")
    F = Facts(paths)
    chk.explanation = (
        "Pairing, ordering and lineage rules on the MIR of RecipeCollector: (D1) Item::{Ingredient,Cookware,Timer}{index} is the result of the "
        "same-kind collector method, which returns len(T) - 1 of the table T it pushed to; InlineQuantity's index is len() of the vector pushed next; "
        "(D2) every entry->return path of ingredient()/cookware() pushes exactly once to content.X and to locations.X; (D3) set_reference receives the "
        "rposition result of a search that excludes Modifiers::REF over the same-kind table, set_referenced_from is called with that index on the same "
        "table on every path from the Some outcome of resolve_reference to the push, and before it; it records all.len(); (D4) step_counter is written "
        "only as `= 1` under the Section arm and `+= 1` under is_step() followed by the content push, and Step.number reads it; (D5) sections are pushed "
        "only under !is_empty(); (D6) Step references index the is_step-filtered enumeration of the current section, Section references are dominated by "
        "a bounds test against content.sections.len(); (D9) the name under which references are matched is the component's own `name` field for ingredients and cookware. These are necessary conditions; index values are never computed.")
    chk.trusted = ["rustc MIR, resolved callees", "Vec::push appends at index len()"]
    chk.analysed = {"facts": th}
    d1_index(chk, F)
    d2_lockstep(chk, F)
    d3_refs(chk, F)
    d4_counter(chk, F)
    d5_sections(chk, F)
    d6_intermediate(chk, F)
    d7_text_nonempty(chk, F)
    d8_timer_nonempty(chk, F)
    d9_ref_name(chk, F)


def _variant_defs(f, op, variant, depth=0, seen=None):
    """assignment sites (block, stmt) of `Option::<variant>` that can flow into operand `op` through moves/copies"""
    seen = seen if seen is not None else set()
    p = op.get("move") or op.get("copy")
    if p is None or p["p"] or depth > 8:
        return []
    l = p["l"]
    if l in seen:
        return []
    seen.add(l)
    out = []
    for d in f.defs.get(l, []):
        if d[0] != "stmt":
            continue
        st = d[3]
        rv = st["rv"]
        if rv["k"] == "agg" and rv.get("agg") == "adt" and norm(rv["adt"]).endswith("option::Option"):
            if rv["variant"] == variant:
                out.append((d[1], st))
        elif rv["k"] == "use":
            out += _variant_defs(f, rv["op"], variant, depth + 1, seen)
    return out


def d9_ref_name(chk, F):
    """'every reference has the same name (ignoring case) as its definition': the name under which resolve_reference looks a component
    up is the component's own `name` field — RefComponent::name returns `&self.name` for ingredients and cookware alike, not the alias,
    the display name or anything computed."""
    R_ = "C06.D9-ref-name"
    impls = [g for k, g in F.funcs.items() if k.endswith("RefComponent>::name") and g.crate == "cooklang" and not g.is_closure()]
    chk.floor(R_, "RefComponent::name implementations", len(impls), 2)
    for g in impls:
        e = resolve_place(g, {"l": 0, "p": []})
        ls = leaves(e)
        calls = [l[5:] for l in ls if l.startswith("call:")]
        extra = [c for c in calls if not c.endswith(("Deref>::deref", "String::as_str", "AsRef<str>>::as_ref", "Borrow<str>>::borrow", "AsRef<T>>::as_ref", "Borrow<T>>::borrow"))]
        ok = "param:self.name" in ls and not extra and not any(l.startswith("param:self.") and l != "param:self.name" for l in ls)
        ty = re.search(r"model::(\w+)", g.key).group(1) if re.search(r"model::(\w+)", g.key) else g.key
        chk.expect(ok, R_, f"{ty}|name", f"{g.file}:{g.line}",
                   f"the lookup name of a {ty} is {full_text(e)[:100]}, not its `name` field: a reference could be matched with a definition of a different name",
                   sample=f"{g.file}:{g.line}: RefComponent::name = &self.name")


def d8_timer_nonempty(chk, F):
    """Every timer has a name or a quantity: in parser::step::timer every path from `name = None` to the Timer construction
    passes the not-none outcome of a test of `quantity` or an assignment `quantity = Some(..)`."""
    from cfgq import call_result_edges, must_pass
    fs = [g for g in F.find("parser::step::timer") if not g.is_closure()]
    if len(fs) != 1:
        chk.fail("anchor-missing", "parser::step::timer", "", "anchor-missing: parser::step::timer not found")
        return
    f = fs[0]
    aggs = [(ff, i, st, d) for ff, i, st, d in aggregates(F, f.key, "model::Timer") if ff is f and "name" in d and "quantity" in d]
    if not aggs:
        chk.fail("anchor-missing", "Timer construction", f"{f.file}:{f.line}", "anchor-missing: no Timer { name, quantity } construction in parser::step::timer")
        return
    ff, ai, ast_, d = aggs[0]
    # "the name is empty" is known from the true outcome of Text::is_text_empty on the name text (the model stores None then)
    empt = [(b, t) for b, t in f.calls() if (callee_key(t) or "").endswith("text::Text::is_text_empty")]
    starts_e, infeasible0 = [], set()
    for b, t in empt:
        te, fe = call_result_edges(f, b)
        starts_e += [v for (u, v) in te]
        infeasible0 |= set(fe)           # every later branch on the same bool (through copies and `!`) is decided
    none_name = [(v, None) for v in starts_e] or _variant_defs(f, d["name"], "None")
    chk.floor("C06.D8-timer-nonempty", "`name is empty` outcomes", len(none_name), 1, f"{f.file}:{f.line}")
    some_q = {b for b, _ in _variant_defs(f, d["quantity"], "Some")}
    K = set(some_q)
    # the local that holds `quantity`
    qp = d["quantity"].get("move") or d["quantity"].get("copy")
    for b, t in f.calls():
        k = callee_key(t) or ""
        if k.endswith(("Option::<T>::is_none", "Option::<T>::is_some")):
            txt = full_text(arg_expr(f, t, 0))
            if "quantity" not in txt:
                continue
            te, fe = call_result_edges(f, b)
            for (u, v) in (fe if k.endswith("is_none") else te):
                if [x for x in f.live if v in f.succ[x]] == [u]:
                    K.add(v)
    # paths that start at `name = None` cannot take the not-none outcome of a later test of `name` (name is not reassigned)
    infeasible = set(infeasible0)
    for b, t in f.calls():
        k = callee_key(t) or ""
        if k.endswith(("Option::<T>::is_none", "Option::<T>::is_some")):
            txt = full_text(arg_expr(f, t, 0))
            if "φ[name]" in txt or txt.lstrip("&(*").startswith("name") or "then_some" in txt and "is_text_empty" in txt:
                te, fe = call_result_edges(f, b)
                infeasible |= set(fe if k.endswith("is_none") else te)
    starts = [b for b, _ in none_name]
    ok = bool(starts)
    for b in starts:
        reach = f.reach_from(b, removed_edges=infeasible, removed_nodes=K - {b})
        if ai in reach:
            ok = False
    chk.expect(ok, "C06.D8-timer-nonempty", "timer|name or quantity", f"{f.file}:{ast_.get('line')}",
               "a path builds Timer { name: None, .. } without having established that the quantity is present (test of `quantity` or `quantity = Some(..)` "
               "after the name was found empty): a timer with neither name nor quantity reaches the model",
               sample=f"{f.file}:{ast_.get('line')}: every path from `name = None` to Timer{{..}} passes quantity.is_none()==false or quantity = Some(..)")


def d7_text_nonempty(chk, F):
    """No text item is empty: every Item::Text built in in_step is either under the non-empty outcome of an
    is_empty() test of the string it copies, or copies the Event::Text payload whole — and the step parser emits
    Event::Text only under the non-empty outcome of an emptiness test of that very text."""
    from cfgq import call_result_edges
    EMPTY = ("str>::is_empty", "String::is_empty", "[T]>::is_empty", "Text::is_text_empty", "Vec::<T, A>::is_empty", "Vec::is_empty")
    def guarded(ff, blk, val_leaves, need_call=None):
        for b, t in ff.calls():
            k = callee_key(t) or ""
            if not any(k.endswith(x) or _sfx(k, x) for x in EMPTY):
                continue
            ls = leaves(arg_expr(ff, t, 0))
            if need_call and not any(l.endswith(need_call) for l in ls):
                continue
            if not ({l for l in ls if l.startswith("call:")} <= set(val_leaves) | {"call:" + k}) and not need_call:
                continue
            te, fe = call_result_edges(ff, b)
            if any(ff.edge_dominates(e_, blk) for e_ in fe):
                return True
        return False
    whole = 0
    sites = aggregates(F, R + "in_step", "model::Item", "Text")
    chk.floor("C06.D7-text-nonempty", "Item::Text constructions", len(sites), 1)
    for ff, i, st, d in sites:
        e = resolve(ff, d["value"])
        ls = leaves(e)
        where = f"{ff.file}:{st.get('line')}"
        if guarded(ff, i, ls):
            chk.ok("C06.D7-text-nonempty", "in_step|Item::Text|guarded", sample=f"{where}: Item::Text under !is_empty()")
            continue
        from_event = any(l.endswith("Text::text") for l in ls) and not any("find_inline_quantity" in l for l in ls)
        whole += from_event
        chk.expect(from_event, "C06.D7-text-nonempty", "in_step|Item::Text|unguarded", where,
                   f"an Item::Text is pushed without a non-empty test of its value ({full_text(e)[:100]}): the model can hold an empty text item",
                   sample=f"{where}: Item::Text copies the whole Event::Text payload (non-empty by the parser-side rule)")
    ps = [f for f in F.find("parser::step::parse_step") if not f.is_closure()]
    if len(ps) != 1:
        chk.fail("anchor-missing", "parse_step", "", "anchor-missing: parser::step::parse_step not found")
        return
    evs = aggregates(F, ps[0].key, "parser::Event", "Text")
    chk.floor("C06.D7-text-nonempty", "Event::Text constructions in parse_step", len(evs), 1)
    for ff, i, st, d in evs:
        e = resolve(ff, list(d.values())[0])
        where = f"{ff.file}:{st.get('line')}"
        ok = guarded(ff, i, leaves(e), need_call="BlockParser::text")
        chk.expect(ok, "C06.D7-text-nonempty", "parse_step|Event::Text", where,
                   "the step parser emits Event::Text without the non-empty outcome of an emptiness test of that text: a comment-only run "
                   "between components becomes an empty text item",
                   sample=f"{where}: Event::Text emitted under !text.fragments().is_empty()")


def _sfx(k, x):
    from c03 import _suffix
    return _suffix(k, x)


def d1_index(chk, F):
    for name, k in KINDS.items():
        f = F.funcs.get(R + name)
        if f is None:
            chk.fail("anchor-missing", R + name, "", f"anchor-missing: collector method {name} not found")
            continue
        e = resolve_place(f, {"l": 0, "p": []})
        txt = full_text(e)
        ls = leaves(e)
        has_sub = any(n[0] == "bin" and n[1].startswith("Sub") for n in walk(e))
        has_arith = any(n[0] == "bin" for n in walk(e))
        # two equivalent forms: `push(x); len() - 1`  or  `let i = len(); push(x); i`
        ok = (has_sub or not has_arith) and \
            any(l.endswith("Vec::<T, A>::len") for l in ls) and any(l == "param:self" + k["table"] for l in ls) and \
            not any(l.startswith("param:self.") and l != "param:self" + k["table"] for l in ls)
        chk.expect(ok, "C06.D1-index", f"{name}|return", f"{f.file}:{f.line}",
                   f"{name}() must return len(self{k['table']}) - 1, the index of the component it just pushed; it returns {txt[:160]}",
                   sample=f"{name}() returns {txt[:100]}")
        lens = [b for b, t in calls_to(f, "Vec::len") if has_field(arg_leaves(f, t, 0), k["table"]) and any(
            n[0] == "call" and n[3] == b for n in walk(e))]
        pushes = [b for b, t in calls_to(f, "Vec::push") if has_field(arg_leaves(f, t, 0), k["table"])]
        if has_sub:
            # the len() is evaluated after the push to the same table, with no other push of that table in between
            ok = bool(lens) and len(pushes) == 1 and all(f.node_dominates(pushes[0], lb) for lb in lens)
            chk.expect(ok, "C06.D1-index", f"{name}|len-after-push", f"{f.file}:{f.line}",
                       f"the length returned by {name}() is not taken after the single push to self{k['table']} ({len(pushes)} push(es))",
                       sample=f"{name}(): push at {f.where(pushes[0]) if pushes else '?'} dominates the len() of the return value")
        else:
            # the len() is evaluated before the single push, and every return passes through that push
            from cfgq import must_pass
            ok = bool(lens) and len(pushes) == 1 and all(f.node_dominates(lb, pushes[0]) and lb != pushes[0] for lb in lens) and \
                must_pass(f, [0], pushes, list(f.returns()))
            chk.expect(ok, "C06.D1-index", f"{name}|len-after-push", f"{f.file}:{f.line}",
                       f"the length returned by {name}() is neither `len - 1` after the push nor `len` taken right before the single push to self{k['table']} ({len(pushes)} push(es))",
                       sample=f"{name}(): len() at {f.where(lens[0]) if lens else '?'} precedes the single push at {f.where(pushes[0]) if pushes else '?'}")
    ins = F.funcs.get(R + "in_step")
    if ins is None:
        chk.fail("anchor-missing", R + "in_step", "", "anchor-missing: in_step not found")
        return
    seen = set()
    for ff, i, s, d in aggregates(F, R + "in_step", "model::Item"):
        v = s["rv"]["variant"]
        if v == "Text":
            continue
        seen.add(v)
        e = resolve(ff, d["index"])
        where = f"{ff.file}:{s.get('line')}"
        if v == "InlineQuantity":
            ls = leaves(e)
            ok = e[0] == "call" and e[1].endswith("Vec::<T, A>::len") and has_field(ls, ".content.inline_quantities")
            # the next push after the aggregate is to the same vector
            pushes = [b for b, t in calls_to(ff, "Vec::push") if has_field(arg_leaves(ff, t, 0), ".content.inline_quantities")]
            lenb = e[3] if ok else None
            ok = ok and len(pushes) == 1 and ff.node_dominates(lenb, pushes[0])
            others = [b for b, t in calls_to(ff, "Vec::push") if has_field(arg_leaves(ff, t, 0), ".content.inline_quantities") is False and False]
            chk.expect(ok, "C06.D1-index", "in_step|InlineQuantity", where,
                       f"Item::InlineQuantity index must be len(content.inline_quantities) read right before the push to that vector; it is {full_text(e)[:120]}",
                       sample=f"{where}: InlineQuantity.index = {full_text(e)[:80]}, then push")
            continue
        want = {"Ingredient": "ingredient", "Cookware": "cookware", "Timer": "timer"}.get(v)
        ok = e[0] == "call" and e[1] == R + want
        chk.expect(ok, "C06.D1-index", f"in_step|{v}", where,
                   f"Item::{v} index must be the result of RecipeCollector::{want}(); it is {full_text(e)[:120]}",
                   sample=f"{where}: Item::{v}.index = {want}(..)")
    for v in ("Ingredient", "Cookware", "Timer", "InlineQuantity"):
        if v not in seen:
            chk.fail("anchor-missing", f"in_step|{v}", "", f"anchor-missing: no Item::{v} construction in in_step")


def d2_lockstep(chk, F):
    for name in ("ingredient", "cookware"):
        k = KINDS[name]
        f = F.funcs.get(R + name)
        if f is None:
            continue
        for tbl in (k["table"], k["loc"]):
            pushes = [b for b, t in calls_to(f, "Vec::push") if has_field(arg_leaves(f, t, 0), tbl)]
            ok = len(pushes) == 1 and not in_loop(f, pushes[0]) and must_pass(f, [0], pushes, f.returns())
            chk.expect(ok, "C06.D2-lockstep", f"{name}|push{tbl}", f"{f.file}:{f.line}",
                       f"{name}() must push exactly once to self{tbl} on every path ({len(pushes)} push site(s); content and locations tables are indexed in lock-step)",
                       sample=f"{name}(): exactly one push to self{tbl} on every path")
    f = F.funcs.get(R + "timer")
    if f is not None:
        pushes = [b for b, t in calls_to(f, "Vec::push") if has_field(arg_leaves(f, t, 0), ".content.timers")]
        ok = len(pushes) == 1 and not in_loop(f, pushes[0]) and must_pass(f, [0], pushes, f.returns())
        chk.expect(ok, "C06.D2-lockstep", "timer|push.content.timers", f"{f.file}:{f.line}", "timer() must push exactly once to self.content.timers",
                   sample="timer(): exactly one push to self.content.timers")


def d3_refs(chk, F):
    rr = [f for f in F.funcs.values() if f.key.startswith(R + "resolve_reference") and not f.is_closure()]
    if len(rr) != 1:
        chk.fail("anchor-missing", "resolve_reference", "", "anchor-missing: resolve_reference not found")
        return
    rr = rr[0]
    region = rr.key
    # (a) set_reference(r): r comes from the lazy same-name search
    sr = calls_to(rr, "set_reference")
    chk.floor("C06.D3-reference", "set_reference calls", len(sr), 1, f"{rr.file}:{rr.line}")
    closures = {g.key for g in F.region_funcs(region) if g.is_closure()}
    for b, t in sr:
        e = arg_expr(rr, t, 1)
        ls = leaves(e)
        from_search = any(l.startswith("call:") and (l[5:] in closures or "call_once" in l or "Fn::call" in l or "FnMut::call_mut" in l) for l in ls) or \
            any(l.endswith("rposition") for l in ls)
        chk.expect(from_search, "C06.D3-reference", "resolve_reference|set_reference arg", rr.where(b),
                   f"set_reference must receive the index found by the same-name search; it receives {full_text(e)[:140]}",
                   sample=f"{rr.where(b)}: set_reference({full_text(e)[:70]})")
    # (a') a component made a reference also gets Modifiers::REF: later same-name searches skip REF components only,
    #      so a reference without REF would be picked as a "definition" (reference == REF modifier clause)
    from c03 import check_requirement
    ok, why = check_requirement(F, rr, None, "paired:RefComponent::set_reference|BitOrAssign for parser::model::Modifiers>::bitor_assign,Modifiers>::insert,Modifiers>::set|Modifiers::REF")
    chk.expect(ok, "C06.D3-ref-modifier", "resolve_reference|set_reference+REF", f"{rr.file}:{rr.line}",
               "a component is turned into a reference without receiving Modifiers::REF: " + why,
               sample=f"{rr.file}:{rr.line}: every set_reference(new, ..) is accompanied by `*new.modifiers_mut() |= Modifiers::REF`")
    # (a'') once the component has been made a reference, resolve_reference must report it (Some): the callers add the
    #       back link only for Some, so a `None` after set_reference leaves a reference its definition does not list back
    nones = [(i, st.get("line")) for i, j, st in rr.iter_stmts() if st["k"] == "assign" and st["place"]["l"] == 0 and not st["place"]["p"]
             and st["rv"].get("k") == "agg" and st["rv"].get("agg") == "adt" and norm(st["rv"]["adt"]).endswith("option::Option") and st["rv"]["variant"] == "None"]
    somes = [i for i, j, st in rr.iter_stmts() if st["k"] == "assign" and st["place"]["l"] == 0 and not st["place"]["p"]
             and st["rv"].get("k") == "agg" and st["rv"].get("variant") == "Some"]
    for b, t in sr:
        reach = rr.reach_from(b)
        bad = [(n, ln) for n, ln in nones if n in reach]
        chk.expect(not bad and any(x in reach for x in somes), "C06.D3-backlink", "resolve_reference|Some after set_reference", rr.where(b),
                   "resolve_reference can return None after it has turned the component into a reference"
                   + (f" (None built at {rr.file}:{bad[0][1]})" if bad else "") + ": the caller then skips set_referenced_from and the definition does not list the reference back",
                   sample=f"{rr.where(b)}: every return reachable after set_reference is Some(..)")
    # the search: rposition over C::all(&self.content) with a predicate excluding Modifiers::REF
    rp = region_calls_to(F, region, "Iterator>::rposition") + region_calls_to(F, region, "Iterator::rposition")
    chk.floor("C06.D3-reference", "rposition search", len(rp), 1, f"{rr.file}:{rr.line}")
    for ff, b, t in rp[:1]:
        recv = full_text(arg_expr(ff, t, 0))
        chk.expect("all(" in recv, "C06.D3-reference", "resolve_reference|search domain", ff.where(b),
                   f"the reference search must run over C::all(&self.content) (same-kind table); it runs over {recv[:120]}",
                   sample=f"{ff.where(b)}: rposition over {recv[:80]}")
        pred = [n[2] for n in walk(arg_expr(ff, t, 1)) if n[0] == "agg" and n[1] == "closure"]
        ok = False
        if pred:
            pf = F.funcs.get(pred[0])
            if pf is not None:
                for pb, pt in pf.calls():
                    ck = callee_key(pt) or ""
                    if ck.endswith("Modifiers>::contains") or ck.endswith("<impl parser::model::Modifiers>::contains") or "Modifiers" in ck and ck.endswith("::contains"):
                        flag = pt["args"][1].get("const", {}).get("path", "")
                        if norm(flag).endswith("Modifiers::REF"):
                            # the REF outcome must make the predicate false: its true edge cannot reach `true`
                            te, fe = call_result_edges(pf, pb)
                            ok = bool(te) and not _can_return_true(pf, te[0][1])
        chk.expect(ok, "C06.D3-reference", "resolve_reference|search excludes REF", ff.where(b),
                   "the reference search predicate no longer rejects components that carry Modifiers::REF: a reference could point to another reference",
                   sample=f"{ff.where(b)}: predicate rejects candidates with Modifiers::REF")
    # (b) set_referenced_from in ingredient()/cookware()
    for name in ("ingredient", "cookware"):
        k = KINDS[name]
        f = F.funcs.get(R + name)
        if f is None:
            continue
        srf = calls_to(f, "set_referenced_from")
        pushes = [b for b, t in calls_to(f, "Vec::push") if has_field(arg_leaves(f, t, 0), k["table"])]
        rcall = calls_to(f, "resolve_reference")
        if len(srf) != 1 or len(pushes) != 1 or len(rcall) != 1:
            chk.fail("C06.D3-backlink", f"{name}|set_referenced_from", f"{f.file}:{f.line}",
                     f"{name}(): expected one resolve_reference, one set_referenced_from and one push, found {len(rcall)}, {len(srf)}, {len(pushes)}: "
                     "a reference would not be listed back by its definition exactly once")
            continue
        sb, st = srf[0]
        ck = callee_key(st)
        chk.expect(k["impl"] in ck, "C06.D3-backlink", f"{name}|kind", f.where(sb),
                   f"{name}() records the back-link through {ck}, not through the {name} implementation", sample=f"{f.where(sb)}: {ck.split('::')[-2][-40:]}::set_referenced_from")
        a0 = arg_leaves(f, st, 0)
        chk.expect(has_field(a0, k["table"]), "C06.D3-backlink", f"{name}|table", f.where(sb),
                   f"set_referenced_from in {name}() operates on {arg_text(f, st, 0)[:80]} instead of self{k['table']}",
                   sample=f"{f.where(sb)}: back-link written into self{k['table']}")
        e1 = arg_expr(f, st, 1)
        l1 = leaves(e1)
        chk.expect(any(l.endswith("resolve_reference") or "resolve_reference::<" in l for l in l1), "C06.D3-backlink", f"{name}|index", f.where(sb),
                   f"set_referenced_from in {name}() receives {full_text(e1)[:100]}, not the index returned by resolve_reference",
                   sample=f"{f.where(sb)}: index comes from resolve_reference")
        # every path Some(..) -> push passes through it, and it comes before the push
        rb, rt = rcall[0]
        some = [tgt for (_, tgt) in option_some_edges(f, rt["dest"]["l"])]
        ok = bool(some) and must_pass(f, some, [sb], pushes) and pushes[0] in f.reach_from(sb) and sb not in f.reach_from(pushes[0])
        chk.expect(ok, "C06.D3-backlink", f"{name}|order", f.where(sb),
                   f"in {name}() a path from the Some(..) outcome of resolve_reference reaches the push of the new component without (or before) "
                   "set_referenced_from: the definition would not list the reference, or would record the wrong index",
                   sample=f"{f.where(sb)}: on every path from Some(..) and before the push at {f.where(pushes[0])}")
    # (c) set_referenced_from pushes all.len() into all[references_to]....referenced_from
    for fk, f in F.funcs.items():
        if fk.endswith("RefComponent>::set_referenced_from") and not f.generated:
            ps = calls_to(f, "Vec::push")
            ok = False
            for b, t in ps:
                e = arg_expr(f, t, 1)
                ls = leaves(e)
                if any(l.endswith("<impl [T]>::len") or l.endswith("::len") for l in ls) and "param:all" in " ".join(ls) or "all" in full_text(e):
                    if e[0] == "call" and e[1].endswith("len"):
                        ok = True
            chk.expect(ok, "C06.D3-backlink", f"{fk.split(' as ')[0][-30:]}|records len", f"{f.file}:{f.line}",
                       "set_referenced_from must push all.len() (the index the new component is about to get)",
                       sample=f"{f.file}:{f.line}: pushes all.len()")


def _can_return_true(pf, start):
    """Can the closure return `true` from block `start`? (return place assigned const true on a reachable block)"""
    reach = pf.reach_path_sensitive(start)
    for b in reach:
        for s in pf.blocks[b]["stmts"]:
            if s["k"] == "assign" and s["place"]["l"] == 0 and not s["place"]["p"]:
                rv = s["rv"]
                c = rv["op"].get("const") if rv["k"] == "use" else None
                if c is None:
                    return True  # computed value: cannot be excluded
                if c.get("bits") == "1":
                    return True
        t = pf.blocks[b]["term"]
        if t["k"] == "call" and t["dest"]["l"] == 0:
            return True
    return False


def d4_counter(chk, F):
    region = R + "parse_events"
    ws = assigns_to_field(F, region, "step_counter")
    kinds = []
    for ff, i, s in ws:
        e = resolve_rvalue(ff, s["rv"], 0, frozenset(), i)
        txt = full_text(e)
        where = f"{ff.file}:{s.get('line')}"
        if e[0] == "const" and e[1].get("int", e[1].get("bits")) == "1":
            kinds.append("reset")
            arms = [tgt for (_, tgt) in variant_arm_blocks(ff, "parser::Event", "Section")]
            ok = any(ff.node_dominates(a, i) for a in arms)
            chk.expect(ok, "C06.D4-step-counter", "reset under Section", where,
                       "step_counter is reset to 1 outside the Event::Section arm", sample=f"{where}: `= 1` under the Section arm")
        elif any(n[0] == "bin" and n[1].startswith("Add") for n in walk(e)) and "step_counter" in txt:
            kinds.append("inc")
            isstep = calls_to(ff, "Content::is_step")
            ok = False
            for b, t in isstep:
                te, fe = call_result_edges(ff, b)
                if any(ff.edge_dominates(e_, i) for e_ in te):
                    ok = True
            chk.expect(ok, "C06.D4-step-counter", "increment under is_step", where,
                       "step_counter is incremented on a path where the new content is not known to be a step (text blocks would be numbered)",
                       sample=f"{where}: `+= 1` under new_content.is_step()")
            pushes = [b for b, t in calls_to(ff, "Vec::push") if has_field(arg_leaves(ff, t, 0), ".current_section.content")]
            heads = [b for b, t in calls_to(ff, "Iterator::next")] + ff.returns()
            ok = bool(pushes) and must_pass(ff, [i], pushes, heads)
            chk.expect(ok, "C06.D4-step-counter", "increment followed by push", where,
                       "after incrementing step_counter the step is not always pushed to the current section: numbers would skip",
                       sample=f"{where}: every path from the increment pushes the step before the next event")
        else:
            kinds.append("other")
            chk.fail("C06.D4-step-counter", f"write:{txt[:40]}", where, f"unexpected write to step_counter: {txt[:100]}")
    chk.expect(sorted(kinds) == ["inc", "reset"], "C06.D4-step-counter", "writes", "",
               f"step_counter must be written exactly by the per-section reset and the per-step increment; found {kinds}", sample="writes: reset, inc")
    steps = aggregates(F, region, "model::Step")
    chk.floor("C06.D4-step-counter", "Step aggregates", len(steps), 1)
    for ff, i, s, d in steps:
        e = resolve(ff, d["number"])
        chk.expect("step_counter" in full_text(e) and e[0] in ("place", "upvar"), "C06.D4-step-counter", "Step.number", f"{ff.file}:{s.get('line')}",
                   f"Step.number is {full_text(e)[:80]}, not the step counter", sample=f"Step.number = {full_text(e)}")


def d5_sections(chk, F):
    region = R + "parse_events"
    pushes = [(ff, b, t) for ff, b, t in region_calls_to(F, region, "Vec::push") if has_field(arg_leaves(ff, t, 0), ".content.sections")]
    chk.floor("C06.D5-sections", "section pushes", len(pushes), 2)
    for n, (ff, b, t) in enumerate(pushes):
        ok = False
        for ib, it in calls_to(ff, "Section::is_empty"):
            te, fe = call_result_edges(ff, ib)
            if any(ff.edge_dominates(e_, b) for e_ in fe):
                ok = True
        chk.expect(ok, "C06.D5-sections", f"push#{n}", ff.where(b),
                   "a section is pushed without the !is_empty() guard: empty sections would appear in the recipe",
                   sample=f"{ff.where(b)}: push under !current_section.is_empty()")
        # what is pushed is the current section
        e = arg_expr(ff, t, 1)
        chk.expect("current_section" in full_text(e), "C06.D5-sections", f"push#{n}|value", ff.where(b),
                   f"content.sections receives {full_text(e)[:80]} instead of the current section", sample=f"{ff.where(b)}: pushes self.current_section")


def d6_intermediate(chk, F, rule="C06.D6-intermediate"):
    f = F.funcs.get(R + "resolve_intermediate_ref")
    if f is None:
        chk.fail("anchor-missing", "resolve_intermediate_ref", "", "anchor-missing: resolve_intermediate_ref not found")
        return
    refs = calls_to(f, "IngredientRelation::reference")
    chk.floor(rule, "reference constructions", len(refs), 4, f"{f.file}:{f.line}")
    for b, t in refs:
        kind = full_text(arg_expr(f, t, 1))
        e = arg_expr(f, t, 0)
        txt = full_text(e)
        where = f.where(b)
        if "Step" in kind:
            ls = leaves(e)
            has_nth = any(l.endswith("::nth") or l.endswith("::nth_back") for l in ls)
            over_section = has_field(ls, ".current_section.content")
            clos = [n[2] for n in walk(e) if n[0] == "agg" and n[1] == "closure"]
            filt = any(any((callee_key(ct) or "").endswith("Content::is_step") for _, ct in F.funcs[c].calls()) for c in clos if c in F.funcs)
            enum = any(l.endswith("Iterator::enumerate") for l in ls)
            chk.expect(has_nth and over_section and filt and enum, rule, f"step-ref@{'back' if 'nth_back' in txt else 'nth'}", where,
                       "a step reference must take the n-th element of the is_step-filtered enumeration of self.current_section.content "
                       f"(nth={has_nth}, current section={over_section}, is_step filter={filt}, enumerate={enum})",
                       sample=f"{where}: index from enumerate().filter_map(is_step).nth over current_section.content")
        else:
            # dominated by a comparison against content.sections.len() whose failing side returns
            ok = False
            for i, j, s in f.iter_stmts():
                rv = s.get("rv", {})
                if rv.get("k") == "bin" and rv["op"] in ("Lt", "Le", "Gt", "Ge"):
                    ce = resolve_rvalue(f, rv, 0, frozenset(), i)
                    if has_field(leaves(ce), ".content.sections") and any(l.endswith("::len") for l in leaves(ce)):
                        te, fe = [], []
                        from cfgq import bool_edges
                        te, fe = bool_edges(f, s["place"]["l"])
                        for edge in te + fe:
                            if f.edge_dominates(edge, b):
                                ok = True
            chk.expect(ok, rule, f"section-ref@{'relative' if 'saturating_sub' in txt else 'number'}", where,
                       "a section reference is built without a dominating bounds test against self.content.sections.len()",
                       sample=f"{where}: dominated by a comparison with content.sections.len()")
    # val - 1 after val == 0 return: covered by C03.D2 table; here: every Sub on u32 is dominated by the non-zero edge
    subs = [(i, s) for i, j, s in f.iter_stmts() if s.get("rv", {}).get("k") == "bin" and s["rv"]["op"].startswith("Sub") and norm(s["rv"].get("lty", "")) == "u32"]
    eqs = [(i, s) for i, j, s in f.iter_stmts() if s.get("rv", {}).get("k") == "bin" and s["rv"]["op"] == "Eq" and s["rv"]["r"].get("const", {}).get("bits") == "0"]
    ok = bool(subs)
    for i, s in subs:
        good = False
        from cfgq import bool_edges
        for ei, es in eqs:
            te, fe = bool_edges(f, es["place"]["l"])
            if any(f.edge_dominates(e_, i) for e_ in fe):
                good = True
        ok = ok and good
    chk.expect(ok, rule, "val-1 after val==0", f"{f.file}:{f.line}",
               "`val - 1` is computed on a path where val == 0 was not excluded", sample=f"{len(subs)} `val - 1` site(s) dominated by the val != 0 outcome")
