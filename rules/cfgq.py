"""Small query helpers over one function's MIR (used by the lineage / pairing rules)."""
from __future__ import annotations

import re

from facts import Facts, Func, callee_key, callee_def, norm, operand_local, operand_place
from flow import resolve, resolve_place, leaves, show, walk
from c03 import _suffix


def calls_to(f: Func, suffix: str):
    return [(b, t) for b, t in f.calls() if _suffix(callee_key(t) or "", suffix) or _suffix(callee_def(t) or "", suffix)]


def calls_reaching(F: Facts, f: Func, suffix: str, stop=()):
    """Blocks of calls in `f` that are `suffix` itself or a user function (or closure created for the call) that
    transitively calls it — so a rule keeps seeing an operation after it has been moved into a helper.
    `stop`: callee suffixes that are never followed (other operations the rule tracks separately)."""
    def hit(k):
        return _suffix(k or "", suffix)
    def stopped(k):
        return any(_suffix(k or "", s) for s in stop)
    memo = {}
    def reaches(k, depth=0):
        if k in memo:
            return memo[k]
        memo[k] = False
        g = F.funcs.get(k)
        if g is None or depth > 6:
            return False
        for kind, tgt, _, _ in F.call_edges(g):
            if stopped(tgt):
                continue
            if hit(tgt) or reaches(tgt, depth + 1):
                memo[k] = True
                return True
        return False
    out = []
    for b, t in f.calls():
        k = callee_key(t) or callee_def(t) or ""
        if stopped(k):
            continue
        if hit(k) or hit(callee_def(t) or ""):
            out.append(b)
            continue
        if k in F.funcs and reaches(k):
            out.append(b)
            continue
        # closures / fn items handed to the call
        for a in t.get("args", []):
            cst = a.get("const")
            if cst and "fn" in cst:
                fk = norm(cst["fn"].get("rdef") or cst["fn"]["def"])
                if hit(fk) or reaches(fk):
                    out.append(b)
                    break
    return out


def region_calls_to(F: Facts, region: str, suffix: str):
    out = []
    for f in F.region_funcs(region):
        out += [(f, b, t) for b, t in calls_to(f, suffix)]
    return out


def arg_expr(f, t, i):
    return resolve(f, t["args"][i])


def arg_leaves(f, t, i):
    return leaves(resolve(f, t["args"][i]))


def arg_text(f, t, i):
    return show(resolve(f, t["args"][i]))


def has_field(ls, path):
    """does any leaf mention the field path (e.g. '.content.ingredients')?"""
    return any(path in l for l in ls)


def bool_edges(f: Func, local: int):
    """(true_edges, false_edges) of every branch controlled by bool `local` (through copies and `!`)."""
    te, fe = [], []
    work = [(local, True)]
    seen = set()
    while work:
        l, pol = work.pop()
        if (l, pol) in seen:
            continue
        seen.add((l, pol))
        for b, t in f.iter_terms("switch"):
            if operand_local(t["discr"]) == l:
                zero = [x[1] for x in t["targets"] if x[0] == "0"]
                if not zero:
                    continue
                f_edge, t_edge = (b, zero[0]), (b, t["otherwise"])
                if not pol:
                    f_edge, t_edge = t_edge, f_edge
                te.append(t_edge)
                fe.append(f_edge)
        for i, j, s in f.iter_stmts():
            if s["k"] != "assign" or s["place"]["p"]:
                continue
            rv = s["rv"]
            if rv["k"] == "use" and operand_local(rv["op"]) == l:
                work.append((s["place"]["l"], pol))
            elif rv["k"] == "un" and rv["op"] == "Not" and operand_local(rv["x"]) == l:
                work.append((s["place"]["l"], not pol))
    return te, fe


def lifted_edges(f: Func, edge):
    """`matches!` and `a && b` materialise a test as a bool: the arm block only does `flag = const true; goto join` and
    every other definition of `flag` is the opposite constant.  Returns the branch edges on `flag` that are equivalent
    to (implied only by) having taken `edge`, plus the edge itself."""
    out = [edge]
    b, tgt = edge
    blk = f.blocks[tgt]
    if blk["term"]["k"] != "goto":
        return out
    preds = [x for x in f.live if tgt in f.succ[x]]
    if preds != [b]:
        return out
    assigns = [st for st in blk["stmts"] if st["k"] == "assign"]
    if len(assigns) != 1 or assigns[0]["place"]["p"] or assigns[0]["rv"]["k"] != "use":
        return out
    c = assigns[0]["rv"]["op"].get("const")
    if not c or norm(c.get("ty", "")) != "bool" or c.get("bits") not in ("0", "1"):
        return out
    flag, val = assigns[0]["place"]["l"], c["bits"]
    for d in f.defs.get(flag, []):
        if d[0] != "stmt":
            return out
        st = d[3]
        if st is assigns[0]:
            continue
        c2 = st["rv"].get("op", {}).get("const") if st["rv"]["k"] == "use" else None
        if not c2 or c2.get("bits") not in ("0", "1") or c2["bits"] == val:
            return out
    te, fe = bool_edges(f, flag)
    out += te if val == "1" else fe
    return out


def bool_root(f: Func, l: int):
    """(root local, polarity): follow single-definition copies and `!` back to the local that actually holds the test result"""
    pol, seen = True, set()
    while l not in seen:
        seen.add(l)
        ds = f.defs.get(l, [])
        if len(ds) != 1 or ds[0][0] != "stmt":
            break
        rv = ds[0][3]["rv"]
        if rv["k"] == "use":
            nl = operand_local(rv["op"])
            p = rv["op"].get("move") or rv["op"].get("copy")
            if nl is None or (p and p["p"]):
                break
            l = nl
            continue
        if rv["k"] == "un" and rv["op"] == "Not":
            nl = operand_local(rv["x"])
            if nl is None:
                break
            l, pol = nl, not pol
            continue
        break
    return l, pol


def consistent_path_exists(f: Func, start: int, target: int, avoid_edges=()):
    """Is there a path start → target that avoids `avoid_edges` and is BRANCH-CONSISTENT: a bool that is defined once and tested
    several times (`if a && b {..} else if a {..}`) takes the same arm every time on one path?  (Decisions are forgotten when the
    path re-enters the block that defines the bool.)"""
    avoid = set(avoid_edges)
    defblock = {}
    stack, seen = [(start, frozenset())], set()
    while stack:
        b, dec = stack.pop()
        if b == target:
            return True
        if (b, dec) in seen or len(seen) > 200000:
            continue
        seen.add((b, dec))
        t = f.blocks[b]["term"]
        decided = None
        if t["k"] == "switch" and norm(t.get("dty", "")) == "bool":
            l = operand_local(t["discr"])
            zero = [x[1] for x in t["targets"] if x[0] == "0"]
            if l is not None and zero and zero[0] != t["otherwise"]:
                r, pol = bool_root(f, l)
                ds = f.defs.get(r, [])
                if len(ds) == 1:
                    defblock[r] = ds[0][1]
                    decided = (r, pol, zero[0])
        for s_ in f.succ[b]:
            if (b, s_) in avoid:
                continue
            nd = dec
            if decided is not None:
                r, pol, z = decided
                val = (s_ != z)
                val = val if pol else not val
                d = dict(dec)
                if r in d and d[r] != val:
                    continue
                d[r] = val
                nd = frozenset(d.items())
            if nd:
                nd = frozenset((r, v) for r, v in nd if defblock.get(r) != s_)
            stack.append((s_, nd))
    return False


def path_without_success(f: Func, target: int, test_dests, start: int = 0, limit: int = 400000):
    """Path-sensitive search: is there a path start → target on which NONE of the bool test results in `test_dests` (locals that
    receive the result of a test call) is observed to be true?  Tracks, per path, bool locals that hold a constant or a copy /
    negation of another local (so `ok = a(x) && b(y); if !ok { return Err }` and `matches!`-style materialised tests are followed),
    keeps branch decisions consistent, and never takes the true branch of a decision on a test result.
    Returns a witness list of blocks, or None when every path to `target` has seen one of the tests succeed."""
    # test_dests: locals whose TRUE value is the success, or a dict local -> wanted outcome (False: success is the false branch)
    tests = dict(test_dests) if isinstance(test_dests, dict) else {l: True for l in test_dests}

    def is_bool(l):
        return norm(f.local_ty(l)) == "bool"

    def step_env(env, dec, b):
        env, dec = dict(env), dict(dec)

        def forget(l):
            dec.pop(l, None)
            for k in [k for k, v in env.items() if v[0] == "a" and v[1] == l]:
                env.pop(k)
        for st in f.blocks[b]["stmts"]:
            if st["k"] != "assign" or st["place"]["p"]:
                continue
            l = st["place"]["l"]
            rv = st["rv"]
            if not is_bool(l):
                # enum values carried to a later `match`: `x = if gate { .. } else { None }; if let Some(..) = x {..}`
                val = None
                if rv["k"] == "agg" and rv.get("agg") == "adt" and rv.get("variant"):
                    val = ("v", rv["variant"])
                elif rv["k"] == "use":
                    pl = rv["op"].get("move") or rv["op"].get("copy")
                    if pl and not pl["p"] and env.get(pl["l"], ("",))[0] == "v":
                        val = env[pl["l"]]
                elif rv["k"] == "discr" and not rv["place"]["p"] and env.get(rv["place"]["l"], ("",))[0] == "v":
                    idx = [x[0] for x in rv.get("variants", []) if x[1] == env[rv["place"]["l"]][1]]
                    if idx:
                        val = ("i", idx[0])
                forget(l)
                if val is not None:
                    env[l] = val
                else:
                    env.pop(l, None)
                continue
            val = None
            if rv["k"] == "use":
                c = rv["op"].get("const")
                if c is not None and c.get("bits") in ("0", "1"):
                    val = ("c", c["bits"] == "1")
                else:
                    pl = rv["op"].get("move") or rv["op"].get("copy")
                    if pl and not pl["p"]:
                        val = env.get(pl["l"], ("a", pl["l"], True))
            elif rv["k"] == "un" and rv.get("op") == "Not":
                m = operand_local(rv["x"])
                if m is not None:
                    v = env.get(m, ("a", m, True))
                    val = ("c", not v[1]) if v[0] == "c" else ("a", v[1], not v[2])
            forget(l)
            if val is not None and not (val[0] == "a" and val[1] == l):
                env[l] = val
            else:
                env.pop(l, None)
        t = f.blocks[b]["term"]
        if t["k"] == "call" and not t["dest"]["p"]:
            forget(t["dest"]["l"])
            env.pop(t["dest"]["l"], None)
        return env, dec

    stack = [(start, frozenset(), frozenset(), (start,))]
    seen = set()
    while stack:
        b, envf, decf, path = stack.pop()
        if len(seen) > limit:
            return [start]          # search budget exhausted: fail closed (treated as "a path may exist")
        if (b, envf, decf) in seen:
            continue
        seen.add((b, envf, decf))
        if b == target:
            return list(path)
        env, dec = step_env(dict(envf), dict(decf), b)
        t = f.blocks[b]["term"]
        succs = list(f.succ[b])
        if t["k"] == "call":
            succs = [x for x in succs if x == t.get("target")] or succs
        if t["k"] == "switch" and norm(t.get("dty", "")) == "bool":
            d = operand_local(t["discr"])
            zero = [x[1] for x in t["targets"] if x[0] == "0"]
            if d is not None and zero:
                v = env.get(d, ("a", d, True))
                for s_ in succs:
                    taken = s_ != zero[0]
                    if v[0] == "c":
                        if taken != v[1]:
                            continue
                        stack.append((s_, frozenset(env.items()), frozenset(dec.items()), path + (s_,)))
                        continue
                    r, pol = v[1], v[2]
                    actual = taken if pol else not taken
                    if r in dec and dec[r] != actual:
                        continue
                    if r in tests and actual == tests[r]:
                        continue
                    d2 = dict(dec)
                    d2[r] = actual
                    stack.append((s_, frozenset(env.items()), frozenset(d2.items()), path + (s_,)))
                continue
        if t["k"] == "switch" and norm(t.get("dty", "")) != "bool":
            d = operand_local(t["discr"])
            v = env.get(d) if d is not None else None
            if v is not None and v[0] == "i":
                tgt = [x[1] for x in t["targets"] if str(x[0]) == str(v[1])]
                succs = tgt or [t["otherwise"]]
        for s_ in succs:
            stack.append((s_, frozenset(env.items()), frozenset(dec.items()), path + (s_,)))
    return None


def call_result_edges(f: Func, block: int):
    """Branch edges controlled by the bool result of the call terminating `block`."""
    t = f.blocks[block]["term"]
    if t["k"] != "call" or t["dest"]["p"]:
        return [], []
    return bool_edges(f, t["dest"]["l"])


def variant_arm_blocks(f: Func, enum_suffix: str, variant: str):
    """Blocks entered when a value of the enum has the given variant (targets of switches on its discriminant)."""
    out = []
    for i, j, s in f.iter_stmts():
        if s["k"] != "assign":
            continue
        rv = s["rv"]
        if rv["k"] != "discr" or not re.sub(r"<.*", "", norm(rv.get("ty", ""))).endswith(enum_suffix):
            continue
        vals = [v[0] for v in rv.get("variants", []) if v[1] == variant]
        if not vals:
            continue
        d = s["place"]["l"]
        for b, t in f.iter_terms("switch"):
            if operand_local(t["discr"]) == d:
                for val, tgt in t["targets"]:
                    if val == vals[0]:
                        out.append((b, tgt))
                # otherwise-arm when the variant is the only one not listed
                listed = {x[0] for x in t["targets"]}
                allv = {v[0] for v in rv.get("variants", [])}
                if vals[0] not in listed and len(allv - listed) == 1:
                    out.append((b, t["otherwise"]))
    return out


def option_some_edges(f: Func, local: int):
    """Edges taken when Option-typed `local` is Some (switch on its discriminant)."""
    out = []
    for i, j, s in f.iter_stmts():
        if s["k"] == "assign" and s["rv"]["k"] == "discr":
            p = s["rv"]["place"]
            if p["l"] == local and not [x for x in p["p"] if x != "*"]:
                d = s["place"]["l"]
                for b, t in f.iter_terms("switch"):
                    if operand_local(t["discr"]) == d:
                        for val, tgt in t["targets"]:
                            if val == "1":
                                out.append((b, tgt))
                        if "1" not in {x[0] for x in t["targets"]}:
                            out.append((b, t["otherwise"]))
    return out


def assigns_to_field(F: Facts, region: str, field: str):
    """Statements in the region whose destination place ends with `.field` (writes of a struct field),
    plus `+=`-style writes through the same place."""
    out = []
    for f in F.region_funcs(region):
        for i, j, s in f.iter_stmts():
            if s["k"] == "assign" and s["place"]["p"] and s["place"]["p"][-1] == "." + field:
                out.append((f, i, s))
    return out


def aggregates(F: Facts, region: str, adt_suffix: str, variant: str | None = None):
    out = []
    for f in F.region_funcs(region):
        for i, j, s in f.iter_stmts():
            rv = s.get("rv", {})
            if rv.get("k") == "agg" and rv.get("agg") == "adt" and norm(rv["adt"]).endswith(adt_suffix) and (variant is None or rv["variant"] == variant):
                out.append((f, i, s, dict(zip(rv["fields"], rv["ops"]))))
    return out


def in_loop(f: Func, block: int):
    return any(block in scc for scc in f.sccs())


def must_pass(f: Func, starts, K, targets):
    """True iff every path from any start block to any target passes through K."""
    K = set(K)
    for s in starts:
        if s in K:
            continue
        r = f.reach_from(s, removed_nodes=K)
        if any(t in r for t in targets):
            return False
    return True


def one(F: Facts, suffix: str, chk=None, crate=None):
    fs = [f for f in F.find(suffix, crate) if not f.is_closure()]
    if len(fs) != 1:
        if chk is not None:
            chk.fail("anchor-missing", suffix, "", f"anchor-missing: expected exactly one function `{suffix}`, found {len(fs)}")
        return None
    return fs[0]
