"""C07 — diagnostics are sound, complete and placed on the offending construct (weak claim).

Decided clauses:
  D1  catalogue floors: the number of diagnostic constructions per module and severity does not
      drop below the reviewed catalogue (tables/diagnostics.toml);
  D2  no dropped diagnostic: every constructed SourceDiag reaches a sink (emitted, pushed to the
      report, or returned);
  D3  stage / severity discipline: parser diagnostics carry Stage::Parse, analysis ones
      Stage::Analysis; `error` sinks receive errors, `warn` sinks warnings;
  D4  parse-error short circuit: the Event::Error arm keeps only parse-stage diagnostics and
      returns no output; every other result carries the output;
  D5  validity = has_output ∧ ¬has_errors;
  D6  zero denominators: every Number::Fraction the parser builds has a denominator that went
      through the `== 0` rejection.
Not decided: that a check fires on the right condition, that well-formed recipes are
diagnostic-free, where labels point — the larger part of C07."""
from __future__ import annotations

import os
import re
import tomllib
from collections import Counter, defaultdict

import harness
from facts import Facts, callee_key, norm, operand_local, region_of, rvalue_operands
from flow import resolve, resolve_place, resolve_rvalue, leaves, show, walk
from cfgq import calls_to, region_calls_to, arg_expr, arg_leaves, variant_arm_blocks, aggregates, bool_edges, call_result_edges

CTOR = re.compile(r"^cooklang::error::SourceDiag::(error|warning|unlabeled)$")
SINKS = {
    "cooklang::parser::block_parser::BlockParser::error": "error",
    "cooklang::parser::block_parser::BlockParser::warn": "warning",
    "cooklang::error::SourceReport::error": "error",
    "cooklang::error::SourceReport::warn": "warning",
    "cooklang::error::SourceReport::push": "any",
}
BUILDERS = ("SourceDiag::label", "SourceDiag::hint", "SourceDiag::set_source", "SourceDiag::add_label", "SourceDiag::add_hint")


def full(e):
    import flow
    return flow.show(e, -50)


def module_of(key):
    parts = key.replace("cooklang::", "").split("::")
    if parts[0] == "parser":
        return "parser::" + parts[1] if len(parts) > 2 else "parser"
    if parts[0] == "analysis":
        return "analysis"
    return parts[0]


def constructions(F):
    out = []
    for k, f in sorted(F.funcs.items()):
        if f.generated or f.crate != "cooklang":
            continue
        for b, t in f.calls():
            ck = callee_key(t) or ""
            m = CTOR.match(ck)
            if not m:
                continue
            args = [resolve(f, a) for a in t["args"]]
            if m.group(1) == "unlabeled":
                sv = full(args[1])
                sev = "error" if "Severity::Error" in sv and "Warning" not in sv else ("warning" if "Severity::Warning" in sv and "Error" not in sv else "dynamic")
            else:
                sev = m.group(1)
            stage = full(args[-1])
            msg = args[0][1].get("str") if args[0][0] == "const" else None
            if msg is None:
                strs = [l[4:] for l in leaves(args[0]) if l.startswith("str:")]
                msg = strs[0] if strs else "<formatted>"
            out.append(dict(f=f, block=b, term=t, sev=sev, stage=stage, msg=msg, module=module_of(k), region=region_of(k)))
    return out


def flows_to_sink(F, f, t):
    """Forward def-use from the destination of a construction: returns (sink kind set, reached?)."""
    start = t["dest"]
    if start["p"]:
        return {"stored"}, True
    seen = set()
    work = [start["l"]]
    kinds = set()
    while work:
        l = work.pop()
        if l in seen:
            continue
        seen.add(l)
        if l == 0:
            kinds.add("returned")
            continue
        for i, j, s in f.iter_stmts():
            if s["k"] != "assign":
                continue
            uses = False
            for op in rvalue_operands(s["rv"]):
                p = op.get("move") or op.get("copy")
                if p is not None and p["l"] == l:
                    uses = True
            rp = s["rv"].get("place")
            if rp is not None and rp["l"] == l:
                uses = True
            if uses:
                if s["place"]["p"]:
                    kinds.add("stored")   # written into a field of something that lives on
                work.append(s["place"]["l"])
        for b, tt in f.calls():
            for idx, a in enumerate(tt.get("args", [])):
                p = a.get("move") or a.get("copy")
                if p is None or p["l"] != l:
                    continue
                ck = callee_key(tt) or ""
                if ck in SINKS:
                    kinds.add("sink:" + SINKS[ck])
                elif any(ck.endswith(bn) for bn in BUILDERS):
                    # builder: by value -> result continues; by &mut -> the same local continues
                    if not tt["dest"]["p"]:
                        work.append(tt["dest"]["l"])
                elif ck.endswith(("BlockParser::event", "VecDeque::<T, A>::push_back", "Vec::<T, A>::push")):
                    kinds.add("sink:any")
                else:
                    # passed to something else (Ok/Some wrappers, map_err closures, ...): follow its result
                    if not tt["dest"]["p"]:
                        work.append(tt["dest"]["l"])
    return kinds, bool(kinds)


def run(chk: harness.Check):
    paths, th = harness.mir_facts("Q")
    F = Facts(paths)
    with open(os.path.join(harness.VERIF, "tables", "diagnostics.toml"), "rb") as fh:
        tab = tomllib.load(fh)
    chk.explanation = (
        "Enumerates every construction of a SourceDiag (SourceDiag::{error,warning,unlabeled}) on the MIR of the library: (D1) per module and severity the "
        "count must not fall below the reviewed catalogue; (D2) forward def-use from each construction must reach BlockParser::{error,warn}, "
        "SourceReport::{error,warn,push}, an event queue, or the function's return value; (D3) the Stage constant matches the module and error/warn sinks "
        "receive matching severities; (D4) in RecipeCollector::parse_events the Event::Error arm calls SourceReport::retain with a Stage::Parse predicate and "
        "returns PassResult::new(None, ..), every other PassResult::new carries Some(content); (D5) PassResult::is_valid is has_output() ∧ ¬has_errors(); "
        "(D6) every Number::Fraction built in the parser takes its denominator from frac() or under the `== 0` rejection; (D7) the out-of-range diagnostic of an intermediate reference is guarded by the "
        "n-th element of the is_step-filtered enumeration of the current section / a comparison with content.sections.len() (shared with C06.D6); (D8) Text::is_text_empty, on which the empty-name/unit/key/value checks hang, examines every fragment; (D9) the primary label stays labels[0]: constructors start the list with it and it is only ever pushed to; (D10) the sets of modifier flags tested by the forbidden-modifier checks are the reviewed sets; (D11) the front-matter mapping that is checked is the deserialiser's result on every path and every exit after deserialising processes it or reports; (D12) the cookware parser tests the unit itself and reports it on every path where it is present; (D13) under TIMER_REQUIRES_TIME no error-free path builds a timer whose quantity was not seen present. Weak: which condition triggers a "
        "diagnostic and where its labels point are not decided.")
    chk.trusted = ["rustc MIR", "tables/diagnostics.toml (reviewed catalogue; message texts are listed for the reader and never compared)"]
    cons = constructions(F)
    chk.analysed = {"facts": th, "constructions": len(cons)}
    # ---- D1 ---------------------------------------------------------------------------------
    counts = Counter((c["module"], c["sev"]) for c in cons)
    for e in tab.get("floor", []):
        n = counts[(e["module"], e["severity"])]
        chk.expect(n >= e["count"], "C07.D1-catalogue", f"{e['module']}|{e['severity']}", "",
                   f"{e['module']} constructs {n} {e['severity']} diagnostic(s), the reviewed catalogue has {e['count']}: a check was deleted or downgraded "
                   f"(catalogue: {e['covers']})", sample=f"{e['module']}: {n} {e['severity']} diagnostics (floor {e['count']})")
    chk.floor("C07.D1-catalogue", "diagnostic constructions", len(cons), 50)
    # ---- D2 / D3 --------------------------------------------------------------------------------
    for c in cons:
        f, b, t = c["f"], c["block"], c["term"]
        where = f.where(b)
        key = f"{c['region']}|{c['sev']}|{c['msg'][:40]}"
        kinds, ok = flows_to_sink(F, f, t)
        chk.expect(ok, "C07.D2-reaches-sink", key, where,
                   f"the {c['sev']} diagnostic \"{c['msg'][:60]}\" is built in {c['region']} but never emitted, pushed or returned",
                   sample=f"{where}: \"{c['msg'][:40]}\" → {sorted(kinds)}")
        want_stage = "Stage::Parse" if c["module"].startswith("parser") else ("Stage::Analysis" if c["module"] == "analysis" else None)
        if want_stage:
            chk.expect(want_stage in c["stage"], "C07.D3-stage", key, where,
                       f"diagnostic \"{c['msg'][:60]}\" in {c['module']} carries {c['stage']} instead of {want_stage}: the parse-error short circuit would "
                       "keep or discard it wrongly", sample=f"{where}: {c['stage']}")
        for k in kinds:
            if k.startswith("sink:") and k[5:] in ("error", "warning") and c["sev"] in ("error", "warning"):
                chk.expect(k[5:] == c["sev"], "C07.D3-severity", key, where,
                           f"a {c['sev']} diagnostic \"{c['msg'][:60]}\" is sent to the `{k[5:]}` sink", sample=f"{where}: {c['sev']} → {k[5:]} sink")
    d2b_returned_diagnostics(chk, F)
    d4_short_circuit(chk, F)
    d5_validity(chk, F)
    d6_zero_den(chk, F)
    # D7: the out-of-range test of an intermediate reference is the emptiness of the same bounded lookup C06.D6 pins
    # (n-th STEP of the current section / comparison with content.sections.len()): counting anything else moves the range
    import c06
    c06.d6_intermediate(chk, F, rule="C07.D7-intermediate-range")
    d8_empty_predicate(chk, F)
    d9_primary_label(chk, F)
    d10_modifier_sets(chk, F)
    d11_frontmatter_malformed(chk, F)
    d12_cookware_unit(chk, F)
    d13_timer_requires_time(chk, F)


# reviewed sets of modifier flags that a check tests for (function suffix, method) -> set; from the documented rules:
# an intermediate-preparation reference may not be a recipe reference, hidden or new; `+` and `&` exclude each other
MODIFIER_SETS = {
    ("RecipeCollector::ingredient", "intersects"): {"RECIPE", "HIDDEN", "NEW"},
    ("RecipeCollector::resolve_reference", "contains"): {"NEW", "REF"},
}


def d13_timer_requires_time(chk, F):
    """'timer without … duration produces a diagnostic' under TIMER_REQUIRES_TIME: in the timer parser there is no path to a return that
    avoids every BlockParser::error call, never sees the quantity present (the not-none outcome of a test of the body's quantity) and never
    sees the TIMER_REQUIRES_TIME test fail — i.e. with the extension on, a timer whose quantity is absent always reports."""
    R = "C07.D13-timer-requires-time"
    fs = [g for g in F.find("parser::step::timer") if not g.is_closure()]
    if len(fs) != 1:
        chk.fail("anchor-missing", "parser::step::timer", "", f"anchor-missing: parser::step::timer found {len(fs)} times")
        return
    f = fs[0]
    errs = {b for b, _ in calls_to(f, "BlockParser::error")}
    gate_false, gates = [], 0
    for b, t in calls_to(f, "BlockParser::extension"):
        if any("TIMER_REQUIRES_TIME" in str((a.get("const") or {}).get("path", "")) or "TIMER_REQUIRES_TIME" in show(resolve(f, a)) for a in t.get("args", [])):
            gates += 1
            gate_false += call_result_edges(f, b)[1]
    chk.floor(R, "TIMER_REQUIRES_TIME tests in timer()", gates, 1, f"{f.file}:{f.line}")
    present = []
    for b, t in f.calls():
        k = callee_key(t) or ""
        if k.endswith(("Option::<T>::is_none", "Option::<T>::is_some")) and ".quantity" in show(resolve(f, t["args"][0]), -200) + show(resolve(f, t["args"][0])):
            te, fe = call_result_edges(f, b)
            present += fe if k.endswith("is_none") else te
    for i, j, st in f.iter_stmts():
        rv = st.get("rv", {})
        if st["k"] == "assign" and rv.get("k") == "discr" and "Option<" in norm(rv.get("ty", "")):
            txt = show(resolve_place(f, rv["place"]), -200)
            if ".quantity" in txt or "quantity" in (f.local_name(rv["place"]["l"]) or ""):
                some = [v[0] for v in rv["variants"] if v[1] == "Some"]
                for b, t in f.iter_terms("switch"):
                    if operand_local(t["discr"]) == st["place"]["l"] and some:
                        tg = [tgt for val, tgt in t["targets"] if val == some[0]] or [t["otherwise"]]
                        present += [(b, x) for x in tg]
    chk.floor(R, "tests of the timer quantity's presence", len(present), 1, f"{f.file}:{f.line}")
    if not gates or not present:
        return
    built = [i for ff, i, st_, d in aggregates(F, f.key, "parser::model::Timer") if ff is f] or [i for ff, i, st_, d in aggregates(F, f.key, "model::Timer") if ff is f]
    chk.floor(R, "Timer constructions in timer()", len(built), 1, f"{f.file}:{f.line}")
    reach = f.reach_from(0, removed_edges=set(gate_false) | set(present), removed_nodes=errs)
    bad = [r for r in built if r in reach]
    chk.expect(not bad, R, "timer|absent quantity reports", f"{f.file}:{f.line}",
               "with TIMER_REQUIRES_TIME set, a timer whose quantity is absent can be accepted on a path that reports nothing (no BlockParser::error, the "
               "quantity never seen present, the extension test never seen off)",
               sample=f"{f.file}:{f.line}: every error-free path has the quantity present or the extension off")


def d12_cookware_unit(chk, F):
    """'unit on cookware … produces a diagnostic': where the cookware parser handles the parsed quantity, the presence of a unit is
    tested on the unit itself (`q.quantity.unit`) and every path from its present outcome to the end passes through BlockParser::error —
    the error does not additionally depend on how the unit was written (with or without a `%` separator)."""
    from cfgq import must_pass
    R = "C07.D12-cookware-unit"
    gs = [g for g in F.region_funcs("cooklang::parser::step::cookware") if any((callee_key(t) or "").endswith("quantity::parse_quantity") for _, t in g.calls())]
    if len(gs) != 1:
        chk.fail("anchor-missing", "cookware|parse_quantity", "", f"anchor-missing: the part of parser::step::cookware that parses the quantity found {len(gs)} times")
        return
    g = gs[0]
    starts = []
    for i, j, st in g.iter_stmts():
        rv = st.get("rv", {})
        if st["k"] == "assign" and rv.get("k") == "discr" and "Option<text::Text" in norm(rv.get("ty", "")):
            txt = show(resolve_place(g, rv["place"]), -80)
            if ".unit" in txt and ".unit_separator" not in txt:
                some = [v[0] for v in rv["variants"] if v[1] == "Some"]
                for b, t in g.iter_terms("switch"):
                    if operand_local(t["discr"]) == st["place"]["l"] and some:
                        starts += [tgt for val, tgt in t["targets"] if val == some[0]] or [t["otherwise"]]
    errs = [b for b, _ in calls_to(g, "BlockParser::error")]
    if not starts:
        chk.fail(R, "cookware|unit test", f"{g.file}:{g.line}",
                 "the cookware parser no longer tests the presence of the quantity's unit itself before deciding whether to report it: a unit written in "
                 "another way (e.g. without the `%` separator) can slip through without the 'unit on cookware' error")
        return
    ok = bool(errs) and must_pass(g, starts, errs, list(g.returns()))
    chk.expect(ok, R, "cookware|unit → error", g.where(starts[0]),
               "a cookware quantity with a unit can be accepted without the 'Invalid cookware quantity: unit' error on some path",
               sample=f"{g.where(starts[0])}: unit present ⇒ bp.error(..) on every path")


def d11_frontmatter_malformed(chk, F):
    """'malformed front matter produces a diagnostic': in process_frontmatter the mapping whose entries are checked is, on every
    path, the one the YAML deserialiser returned (never a fresh/empty mapping put in its place), and every path from the
    deserialisation to a return either processes that mapping or reports to the diagnostics context."""
    from cfgq import must_pass
    R = "C07.D11-frontmatter-malformed"
    fs = [g for g in F.find("event_consumer::RecipeCollector::process_frontmatter") if not g.is_closure()]
    if len(fs) != 1:
        chk.fail("anchor-missing", "process_frontmatter", "", "anchor-missing: RecipeCollector::process_frontmatter not found")
        return
    f = fs[0]
    des = [(b, t) for b, t in f.calls() if re.search(r"serde_yaml::(de::)?from_(str|slice|reader)$", callee_key(t) or "")]
    its = calls_to(f, "serde_yaml::Mapping::iter") + calls_to(f, "serde_yaml::Mapping::iter_mut") + calls_to(f, "IntoIterator>::into_iter")
    its = [(b, t) for b, t in its if any(l.endswith(("from_str", "from_slice", "from_reader", "Mapping::new", "Default>::default")) or "Mapping" in l
                                          for l in leaves(arg_expr(f, t, 0)))
           and not ((callee_key(t) or "").endswith("into_iter") and any(l.endswith(("Mapping::iter", "Mapping::iter_mut")) for l in leaves(arg_expr(f, t, 0))))]
    chk.floor(R, "YAML deserialisations in process_frontmatter", len(des), 1, f"{f.file}:{f.line}")
    chk.floor(R, "iterations over the front matter mapping", len(its), 1, f"{f.file}:{f.line}")
    if not des or not its:
        return
    for b, t in its:
        e = arg_expr(f, t, 0)
        calls = {n[1] for n in walk(e) if n[0] == "call"}
        fresh = sorted(c for c in calls if c.endswith(("Mapping::new", "Mapping::with_capacity", "Default>::default")))
        ok = any(re.search(r"from_(str|slice|reader)$", c) for c in calls) and not fresh
        chk.expect(ok, R, "process_frontmatter|mapping-lineage", f.where(b),
                   f"the mapping whose entries are checked can be {', '.join(c.rsplit('::', 2)[-2] + '::' + c.rsplit('::', 1)[-1] for c in fresh) or 'something other than the deserialised document'}: "
                   "a front matter that is not a mapping would be treated as empty without a diagnostic",
                   sample=f"{f.where(b)}: the iterated mapping is the deserialiser's Ok value on every path")
    sinks = [b for suf in ("SourceReport::error", "SourceReport::warn", "SourceReport::push") for b, _ in calls_to(f, suf)]
    K = [b for b, _ in its] + sinks
    for b, t in des:
        nxt = t.get("target")
        ok = nxt is not None and must_pass(f, [nxt], K, list(f.returns()))
        chk.expect(ok, R, "process_frontmatter|no-silent-exit", f.where(b),
                   "a path leaves process_frontmatter after the YAML deserialisation without processing the mapping and without reporting a diagnostic",
                   sample=f"{f.where(b)}: every exit after from_str processes the mapping or reports")


def modifier_set_calls(F, fn_suffix, method):
    out = []
    for g in F.find(fn_suffix):
        for h in F.region_funcs(g.key):
            for b, t in h.calls():
                ck = callee_key(t) or ""
                if "Modifiers" in ck and ck.rsplit("::", 1)[-1] == method and len(t.get("args", [])) == 2:
                    e = resolve(h, t["args"][1])
                    cs = {l.split("::")[-1] for l in leaves(e) if l.startswith("const:") and "Modifiers::" in l}
                    if len(cs) >= 2:
                        out.append((h, b, cs))
    return out


def d10_modifier_sets(chk, F):
    """'forbidden modifier' diagnostics test a SET of flags; the set is part of the catalogue: the union of Modifiers constants that
    reaches each reviewed intersects()/contains() test must be exactly the reviewed set (a flag dropped from it is a check that
    silently stopped firing for that modifier)."""
    for (fn, method), want in sorted(MODIFIER_SETS.items()):
        sites = modifier_set_calls(F, fn, method)
        if not sites and method == "contains":
            # `m.contains(A | B)` written as `m.contains(A) && m.contains(B)` (possibly through hoisted bools): some error report
            # of the function is reachable only with every flag of the reviewed set tested true
            from cfgq import path_without_success
            for g in F.find(fn):
                if g.is_closure():
                    continue
                dests = {}
                for b, t in g.calls():
                    ck = callee_key(t) or ""
                    if "Modifiers" in ck and ck.rsplit("::", 1)[-1] == "contains" and len(t.get("args", [])) == 2 and not t["dest"]["p"]:
                        cs = {l.split("::")[-1] for l in leaves(resolve(g, t["args"][1])) if l.startswith("const:") and "Modifiers::" in l}
                        if len(cs) == 1:
                            dests.setdefault(next(iter(cs)), []).append(t["dest"]["l"])
                if not all(fl in dests for fl in want):
                    continue
                for eb, _ in calls_to(g, "SourceReport::error"):
                    if all(path_without_success(g, eb, dests[fl]) is None for fl in want):
                        sites = [(g, eb, set(want))]
                        break
        chk.expect(bool(sites), "C07.D10-modifier-sets", f"{fn}|{method}#present", "",
                   f"anchor-missing: no {method}() test on a union of Modifiers constants left in {fn}", sample=f"{fn}: {method}({sorted(want)})")
        for h, b, cs in sites:
            chk.expect(cs == want, "C07.D10-modifier-sets", f"{fn}|{method}", h.where(b),
                       f"{fn.split('::')[-1]} tests the modifiers {sorted(cs)} where the reviewed set is {sorted(want)}: "
                       + (f"{sorted(want - cs)} no longer produce(s) the diagnostic" if want - cs else f"{sorted(cs - want)} added"),
                       sample=f"{h.where(b)}: {method}({' | '.join(sorted(cs))})")


def d9_primary_label(chk, F):
    """`labels[0]` is the primary label (the one given to error!/warning!): SourceDiag::error / warning start the label list
    with exactly their `label` argument, and the only thing the library ever does to a diagnostic's own label list afterwards
    is Vec::push (no insert, sort, swap, remove ... on `self.labels`; write_report sorts a copy)."""
    from flow import resolve, show, leaves
    from cfgq import aggregates
    n = 0
    for name in ("error", "warning"):
        fs = [g for g in F.find("error::SourceDiag::" + name) if not g.is_closure()]
        for g in fs:
            for ff, i, st, d in aggregates(F, g.key, "error::SourceDiag"):
                n += 1
                e = resolve(ff, d["labels"])
                txt = show(e, -50)
                ok = "label" in {l[6:] for l in leaves(e) if l.startswith("param:")} and not any(c in txt for c in ("Vec::<T>::new", "with_capacity"))
                if not ok and "into_vec" in txt:
                    # `vec![label]` lowers to a boxed one-element array written through a raw pointer
                    arrs = [s2 for _, _, s2 in ff.iter_stmts() if s2["k"] == "assign" and s2["rv"]["k"] == "agg" and s2["rv"].get("agg") == "array"
                            and "macro:vec" in s2.get("macros", [])]
                    ok = len(arrs) == 1 and len(arrs[0]["rv"]["ops"]) == 1 and show(resolve(ff, arrs[0]["rv"]["ops"][0]), -50) == "label"
                chk.expect(ok, "C07.D9-primary-label", f"SourceDiag::{name}|labels", f"{ff.file}:{st.get('line')}",
                           f"SourceDiag::{name} does not start the label list with its `label` argument ({txt[:80]})",
                           sample=f"{ff.file}:{st.get('line')}: labels: vec![label]")
    chk.floor("C07.D9-primary-label", "SourceDiag::{error,warning} constructions", n, 2)
    touched = 0
    for k, f in F.funcs.items():
        if f.crate != "cooklang" or f.generated:
            continue
        for b, t in f.calls():
            if not t.get("args"):
                continue
            txt = show(resolve(f, t["args"][0]), -50)
            if ".labels" not in txt or "self" not in txt and "SourceDiag" not in k:
                continue
            ck = (callee_key(t) or "")
            m = ck.rsplit("::", 1)[-1]
            if m in ("as_slice", "into", "iter", "len", "is_empty", "deref", "first", "as_ref", "clone", "borrow"):
                continue
            touched += 1
            chk.expect(m == "push", "C07.D9-primary-label", f"{k.rsplit('::', 2)[-2]}::{k.rsplit('::', 1)[-1]}|labels.{m}", f.where(b),
                       f"a diagnostic's own label list is modified with `{m}`: labels[0] would stop being the primary label the check attached to the offending construct",
                       sample=f"{f.where(b)}: labels.push(label)")
    chk.floor("C07.D9-primary-label", "label list mutations", touched, 1)


def d8_empty_predicate(chk, F):
    """The empty-name / empty-unit / empty-key / empty-value diagnostics all hang on Text::is_text_empty: it must look at
    every fragment (`fragments().iter().all(|f| f.text.trim().is_empty())`) or at the whole assembled text
    (`text()/text_trimmed()` … `is_empty()`), and at least the eight reviewed checks must still consult it."""
    from flow import resolve, leaves, show
    import c09
    fs = [g for g in F.find("text::Text::is_text_empty") if not g.is_closure()]
    if len(fs) != 1:
        chk.fail("anchor-missing", "is_text_empty", "", "anchor-missing: Text::is_text_empty not found")
        return
    f = fs[0]
    e = c09.return_expr(f)
    ls = leaves(e)
    calls = {l[5:] for l in ls if l.startswith("call:")}
    form_all = e[0] == "call" and e[1].endswith("Iterator>::all") and any(c.endswith("text::Text::fragments") for c in calls)
    if form_all:
        clos = [g for g in F.region_funcs(f.key) if g.is_closure()]
        form_all = len(clos) == 1 and (lambda t: "is_empty(" in t and "trim" in t and ".text" in t)(show(c09.return_expr(clos[0]), -50))
    if not form_all and e[0] == "un" and str(e[1]).startswith("Not") and isinstance(e[2], tuple) and e[2][0] == "call" and e[2][1].endswith("Iterator>::any") \
            and any(c.endswith("text::Text::fragments") for c in calls):
        clos = [g for g in F.region_funcs(f.key) if g.is_closure()]
        ce = c09.return_expr(clos[0]) if len(clos) == 1 else None
        form_all = ce is not None and ce[0] == "un" and str(ce[1]).startswith("Not") and (lambda t: "is_empty(" in t and "trim" in t and ".text" in t)(show(ce, -50))
    form_whole = e[0] == "call" and e[1].endswith("is_empty") and any(c.endswith(("Text::text", "Text::text_trimmed", "Text::text_outer_trimmed")) for c in calls) \
        and any("trim" in c for c in calls)
    chk.expect(form_all or form_whole, "C07.D8-empty-predicate", "is_text_empty|every fragment", f"{f.file}:{f.line}",
               f"Text::is_text_empty no longer tests every fragment's trimmed text (it returns {show(e, -50)[:100]}): an empty name / unit / key padded with "
               "a comment or a line break would stop being diagnosed", sample=f"{f.file}:{f.line}: fragments().iter().all(|f| f.text.trim().is_empty())")
    users = {g.key for g, kind, b, t in F.callers_of(f.key) if kind == "call" and g.crate == "cooklang"}
    chk.expect(len(users) >= 8, "C07.D8-empty-predicate", "is_text_empty|users", f"{f.file}:{f.line}",
               f"only {len(users)} parser functions still consult is_text_empty (reviewed: 8): an emptiness check was removed",
               sample=f"is_text_empty consulted by {len(users)} functions")


DROPPERS = ("Result::<T, E>::ok", "Result::<T, E>::unwrap_or", "Result::<T, E>::unwrap_or_default", "Result::<T, E>::unwrap_or_else", "Result::<T, E>::is_ok",
            "Result::<T, E>::is_err", "std::mem::drop", "Result::<T, E>::is_ok_and", "Result::<T, E>::iter", "Result::<T, E>::and")


def err_payload_flows(f, t):
    """Does the Err(SourceDiag) payload of the call result reach a sink, a builder, an aggregate or the return value?
    Follows whole-value moves and uses of the `as Err` projection; Result::ok()/unwrap_or()/is_ok() drop the payload."""
    start = t["dest"]
    if start["p"]:
        return {"stored"}
    seen = set()
    work = [start["l"]]
    kinds = set()
    while work:
        l = work.pop()
        if l in seen:
            continue
        seen.add(l)
        if l == 0:
            kinds.add("returned")
            continue
        for i, j, s in f.iter_stmts():
            if s["k"] != "assign":
                continue
            for op in rvalue_operands(s["rv"]) + ([{"copy": s["rv"]["place"]}] if "place" in s["rv"] and s["rv"]["k"] in ("ref",) else []):
                p = op.get("move") or op.get("copy")
                if p is None or p["l"] != l:
                    continue
                projs = [x for x in p["p"] if x != "*"]
                if any(x.startswith("as Ok") for x in projs):
                    continue                               # the success payload: not the diagnostic
                if any(x.startswith("as Err") for x in projs):
                    kinds.add("taken")                     # the error payload is taken out (bound to a variable)
                    work.append(s["place"]["l"])
                else:
                    work.append(s["place"]["l"])          # whole value / Option::Some / ControlFlow payload moved on
        for b, tt in f.calls():
            for a in tt.get("args", []):
                p = a.get("move") or a.get("copy")
                if p is None or p["l"] != l:
                    continue
                projs = [x for x in p["p"] if x != "*"]
                ck = callee_key(tt) or ""
                if projs and any(x.startswith("as Ok") for x in projs):
                    continue
                if any(ck.endswith(d) or ck.replace("std::result::", "").endswith(d) for d in DROPPERS):
                    kinds.add("dropped:" + ck.rsplit("::", 1)[-1])
                    continue
                if ck in SINKS:
                    kinds.add("sink")
                elif not tt["dest"]["p"]:
                    work.append(tt["dest"]["l"])
    return kinds


def d2b_returned_diagnostics(chk, F):
    """A diagnostic returned as Err(SourceDiag) must not be dropped by the caller."""
    n = 0
    for k, f in sorted(F.funcs.items()):
        if f.generated or f.crate != "cooklang":
            continue
        for b, t in f.calls():
            ck = callee_key(t) or ""
            g = F.funcs.get(ck)
            if g is None or g.generated or not g.locals:
                continue
            rty = norm(g.locals[0].get("ty", ""))
            if "error::SourceDiag" not in rty or "Result<" not in rty:
                continue
            n += 1
            kinds = err_payload_flows(f, t)
            good = {x for x in kinds if not x.startswith("dropped:")}
            dropped = sorted(x for x in kinds if x.startswith("dropped:"))
            ok = bool(good) and not dropped
            chk.expect(ok, "C07.D2-returned-diagnostic", f"{region_of(k)}|{ck.rsplit('::', 1)[-1]}", f.where(b),
                       f"the error diagnostic returned by {ck.rsplit('::', 1)[-1]}() is discarded in {region_of(k)} ({', '.join(dropped) or 'no use of the Err payload'}): "
                       "the invalid construct would be accepted silently", sample=f"{f.where(b)}: Err(diag) of {ck.rsplit('::', 1)[-1]}() → {sorted(good)}")
    chk.floor("C07.D2-returned-diagnostic", "calls returning Result<_, SourceDiag>", n, 8)


def d4_short_circuit(chk, F):
    f = F.funcs.get("cooklang::analysis::event_consumer::RecipeCollector::parse_events")
    if f is None:
        chk.fail("anchor-missing", "RecipeCollector::parse_events", "", "anchor-missing")
        return
    arms = [tgt for _, tgt in variant_arm_blocks(f, "parser::Event", "Error")]
    news = calls_to(f, "PassResult::<T>::new")
    rets = calls_to(f, "SourceReport::retain")
    if not arms or len(news) < 2 or not rets:
        chk.fail("C07.D4-short-circuit", "parse_events|shape", f"{f.file}:{f.line}",
                 f"parse_events must have an Event::Error arm ({len(arms)}), a SourceReport::retain call ({len(rets)}) and two PassResult::new results ({len(news)})")
        return
    arm = arms[0]
    in_arm = [(b, t) for b, t in news if f.node_dominates(arm, b)]
    out_arm = [(b, t) for b, t in news if not f.node_dominates(arm, b)]
    ok = len(in_arm) == 1 and "None" in full(arg_expr(f, in_arm[0][1], 0)) and "Some" not in full(arg_expr(f, in_arm[0][1], 0))
    chk.expect(ok, "C07.D4-short-circuit", "parse_events|error arm returns None", f.where(in_arm[0][0]) if in_arm else f"{f.file}:{f.line}",
               "on a parse-stage error the analysis must return no output (PassResult::new(None, ..))", sample="Event::Error arm → PassResult::new(None, ctx)")
    ok = bool(out_arm) and all("Some" in full(arg_expr(f, t, 0)) and "content" in full(arg_expr(f, t, 0)) for b, t in out_arm)
    chk.expect(ok, "C07.D4-short-circuit", "parse_events|normal result has output", f"{f.file}:{f.line}",
               "outside the parse-error arm the analysis must return Some(self.content) (analysis errors keep the output)", sample="normal exit → PassResult::new(Some(self.content), ctx)")
    rb, rt = rets[0]
    okr = f.node_dominates(arm, rb)
    pred = [n[2] for n in walk(arg_expr(f, rt, 1)) if n[0] == "agg" and n[1] == "closure"]
    okp = False
    for c in pred:
        g = F.funcs.get(c)
        if g is None:
            continue
        txt = " ".join(full(resolve(g, a)) for b, t in g.calls() for a in t.get("args", [])) + " " + \
              " ".join(full(resolve_rvalue(g, s["rv"], 0, frozenset(), i)) for i, j, s in g.iter_stmts() if s["k"] == "assign")
        if ".stage" in txt and "Stage::Parse" in txt:
            okp = True
    chk.expect(okr and okp, "C07.D4-short-circuit", "parse_events|retain parse stage", f.where(rb),
               "the parse-error arm must discard non-parse diagnostics: retain(|e| e.stage == Stage::Parse)", sample=f"{f.where(rb)}: ctx.retain(stage == Parse) inside the Error arm")
    # the arm must not fall back into the loop
    nexts = [b for b, t in calls_to(f, "Iterator::next")]
    chk.expect(all(n not in f.reach_from(in_arm[0][0]) for n in nexts) if in_arm else False, "C07.D4-short-circuit", "parse_events|error arm returns", f"{f.file}:{f.line}",
               "after a parse error the analysis continues consuming events instead of returning", sample="Event::Error arm returns")


def d5_validity(chk, F):
    f = F.funcs.get("cooklang::error::PassResult::<T>::is_valid")
    if f is None:
        chk.fail("anchor-missing", "PassResult::is_valid", "", "anchor-missing")
        return
    ho = calls_to(f, "PassResult::<T>::has_output")
    he = calls_to(f, "SourceReport::has_errors")
    if len(ho) != 1 or len(he) != 1:
        chk.fail("C07.D5-validity", "is_valid|calls", f"{f.file}:{f.line}", f"is_valid must test has_output() and report.has_errors() ({len(ho)}, {len(he)})")
        return
    # `a && !b` lowers to: switch a {false -> _0 = false; true -> _0 = !b}
    e = full(resolve_place(f, {"l": 0, "p": []}))
    ok = "Not(" in e and "has_errors" in e and "false" not in e.replace("const false", "")
    te_o, fe_o = call_result_edges(f, ho[0][0])
    ok = ok and bool(te_o) and f.edge_dominates(te_o[0], he[0][0])
    chk.expect(ok, "C07.D5-validity", "is_valid", f"{f.file}:{f.line}",
               f"a result is valid exactly when it has output and no error; is_valid computes {e[:120]}", sample=f"is_valid = has_output() && !report.has_errors()")
    g = F.funcs.get("cooklang::error::SourceReport::has_errors")
    if g is not None:
        uses_err = bool(calls_to(g, "SourceReport::errors"))
        if not uses_err:
            # or selects the severity itself: the constant Severity::Error is what it compares with / passes on
            import json as _json
            for h in F.region_funcs(g.key):
                for _b, _t in h.calls():
                    if any((a.get("const") or {}).get("path", "").endswith("Severity::Error") or "Severity::Error" in full(resolve(h, a)) for a in _t.get("args", [])):
                        uses_err = True
                for _i, _j, _s in h.iter_stmts():
                    if _s["k"] == "assign" and "Severity::Error" in _json.dumps(_s["rv"]) and "Severity::Warning" not in _json.dumps(_s["rv"]):
                        uses_err = True
        chk.expect(uses_err, "C07.D5-validity", "has_errors", f"{g.file}:{g.line}",
                   "SourceReport::has_errors no longer looks at the error-severity diagnostics", sample="has_errors → errors().next().is_some()")
    g = F.funcs.get("cooklang::error::SourceReport::errors")
    if g is not None:
        ok = False
        for h in F.region_funcs(g.key):
            for i, j, s in h.iter_stmts():
                if s["k"] == "assign" and "Severity::Error" in full(resolve_rvalue(h, s["rv"], 0, frozenset(), i)):
                    ok = True
            for b, t in h.calls():
                if any("Severity::Error" in full(resolve(h, a)) for a in t.get("args", [])):
                    ok = True
        chk.expect(ok, "C07.D5-validity", "errors filter", f"{g.file}:{g.line}", "SourceReport::errors no longer filters on Severity::Error",
                   sample="errors() filters severity == Error")


def d6_zero_den(chk, F):
    n = 0
    for k, f in sorted(F.funcs.items()):
        if not k.startswith("cooklang::parser::") or f.generated:
            continue
        for i, j, s in f.iter_stmts():
            rv = s.get("rv", {})
            if rv.get("k") == "agg" and rv.get("agg") == "adt" and norm(rv["adt"]).endswith("quantity::Number") and rv["variant"] == "Fraction":
                n += 1
                d = dict(zip(rv["fields"], rv["ops"]))
                den = resolve(f, d["den"])
                dtxt = full(den)
                where = f"{f.file}:{s.get('line')}"
                from_frac = any(l.endswith("parser::quantity::frac") for l in leaves(den))
                guarded = False
                for ci, cj, cs in f.iter_stmts():
                    crv = cs.get("rv", {})
                    if crv.get("k") == "bin" and crv["op"] in ("Eq", "Ne") and crv["r"].get("const", {}).get("bits") == "0" and \
                            full(resolve(f, crv["l"])) == dtxt:
                        te, fe = bool_edges(f, cs["place"]["l"])
                        nz = fe if crv["op"] == "Eq" else te
                        if any(f.edge_dominates(e, i) for e in nz):
                            guarded = True
                chk.expect(from_frac or guarded, "C07.D6-zero-denominator", f"{region_of(k)}|Fraction", where,
                           f"the parser builds a fraction whose denominator `{dtxt[:60]}` neither comes from frac() nor is tested against zero: `1/0` forms "
                           "would be accepted without the division-by-zero error", sample=f"{where}: denominator {'from frac()' if from_frac else 'under `!= 0`'}")
    chk.floor("C07.D6-zero-denominator", "Fraction constructions in the parser", n, 2)
