"""Both-ways self-test of the checkers (DESIGN.md §4.8): every patch under mutants/<PID>/ is applied to a
scratch copy of /repo (outside /repo and /verif, removed afterwards), the property's check must fire naming
the expected rule/instance, and the unpatched tree must be silent.  About the checker, not about /repo: a
patch that no longer applies is recorded as skipped and never influences a property's exit code."""
import glob
import json
import os
import re
import shutil
import subprocess
import sys
import tempfile
import time

import harness


def meta_of(patch):
    m = {}
    with open(patch) as fh:
        for line in fh:
            if not line.startswith("#"):
                break
            k, _, v = line[1:].partition(":")
            m[k.strip()] = v.strip()
    return m


def run_one(patch, scratch_root):
    m = meta_of(patch)
    pid = m.get("property") or os.path.basename(os.path.dirname(patch))
    scratch = tempfile.mkdtemp(prefix="verif-mut-", dir=scratch_root)
    res = {"patch": os.path.relpath(patch, harness.VERIF), "property": pid, "expect": m.get("expect", "")}
    try:
        subprocess.run(["rsync", "-rlp", "--exclude", "target", "--exclude", ".git", harness.REPO + "/", scratch + "/"], check=True)
        r = subprocess.run(["patch", "-p1", "--no-backup-if-mismatch", "-s", "-i", patch], cwd=scratch, stdout=subprocess.PIPE, stderr=subprocess.STDOUT, text=True)
        if r.returncode != 0:
            res["status"] = "skipped (tree differs)"
            res["detail"] = r.stdout[-300:]
            return res
        env = dict(os.environ, VERIF_REPO=scratch, VERIF_EVIDENCE_DIR=os.path.join(scratch, ".evidence"))
        t0 = time.time()
        r = subprocess.run([os.path.join(harness.VERIF, "check"), pid], cwd=harness.VERIF, env=env, stdout=subprocess.PIPE, stderr=subprocess.STDOUT, text=True)
        res["wall_s"] = round(time.time() - t0, 1)
        out = r.stdout
        res["exit"] = r.returncode
        fired = [l.strip() for l in out.splitlines() if l.strip().startswith("[")]
        inst = [l.strip() for l in out.splitlines() if l.strip().startswith("instance:")]
        res["fired"] = fired[:6]
        exp = m.get("expect", "")
        ok = r.returncode == 1 and "VIOLATION property=" + pid in out
        if ok and exp:
            ok = any(exp in l for l in fired + inst)
        res["status"] = "caught" if ok else ("setup-error" if r.returncode == 2 else "MISSED")
        if not ok:
            res["tail"] = out[-600:]
        return res
    finally:
        shutil.rmtree(scratch, ignore_errors=True)


def main(tier="quick", only=None):
    root = os.environ.get("VERIF_SCRATCH", "/tmp")
    patches = sorted(glob.glob(os.path.join(harness.VERIF, "mutants", "*", "*.patch")))
    if only:
        patches = [p for p in patches if only in p]
    results = []
    for p in patches:
        r = run_one(p, root)
        results.append(r)
        print(f"{r['status']:>22}  {r['patch']}  {('-> ' + r['fired'][0][:110]) if r.get('fired') else ''}")
    missed = [r for r in results if r["status"] == "MISSED"]
    out = {"results": results, "caught": sum(r["status"] == "caught" for r in results), "missed": len(missed),
           "skipped": sum(r["status"].startswith("skipped") for r in results)}
    if not only:      # a filtered run does not overwrite the summary of the full run
        with open(os.path.join(harness.VERIF, "selfcheck", "selftest.json"), "w") as fh:
            json.dump(out, fh, indent=1)
    print(f"selftest: {out['caught']} caught, {out['missed']} missed, {out['skipped']} skipped of {len(results)}")
    return 1 if missed else 0


if __name__ == "__main__":
    sys.exit(main(only=sys.argv[1] if len(sys.argv) > 1 else None))
