"""C18 — parsing is deterministic, stateless across calls and thread-safe.

Decided clause (necessary condition, not the behaviour): no function reachable from the
parse entry points touches a source of hidden state or nondeterminism, and the parser type
holds no shared writable state.  Effect analysis on the call graph of the current tree."""
from __future__ import annotations

import re
import tomllib
import os
from collections import deque

import harness
from facts import Facts, callee_key, norm, rvalue_operands, region_of
from typestr import type_names

ENTRIES = [
    "cooklang::CooklangParser::parse",
    "cooklang::CooklangParser::parse_with_options",
    "cooklang::CooklangParser::parse_metadata",
    "cooklang::CooklangParser::parse_metadata_with_options",
    "cooklang::parse",
    "cooklang::parser::PullParser::<parser::token_stream::TokenStream>::new",
    "cooklang::<parser::PullParser<T> as std::iter::Iterator>::next",
    "cooklang::parser::PullParser::<T>::into_meta_iter",
    "cooklang::parser::PullParser::<T>::next_metadata",
    "cooklang::analysis::event_consumer::parse_events",
    "cooklang::ast::build_ast",
]

# ---- effect classes of foreign callees (by resolved def path) -----------------------------------
INTERIOR = re.compile(
    r"(^|[:<& ])(std|core)::(cell::(Cell|RefCell|OnceCell|UnsafeCell|LazyCell)|sync::(Mutex|RwLock|Once|OnceLock|LazyLock|Condvar|Barrier|mpsc|atomic)|thread::(LocalKey|local))")
AMBIENT = re.compile(
    r"(^|[:<& ])(std|core)::(env|time::(Instant|SystemTime)|fs|net|process|io::(stdin|Stdin)|thread::(current|spawn|sleep|park|yield_now|Thread|available_parallelism)|os|hash::random|collections::hash::map::RandomState|random|path::Path::(canonicalize|exists|try_exists|is_file|is_dir|is_symlink|metadata|symlink_metadata|read_dir|read_link))\b")
HASH_ITER_METHODS = {
    "iter", "iter_mut", "keys", "values", "values_mut", "into_keys", "into_values", "drain",
    "retain", "into_iter", "extract_if", "extend", "next", "fmt", "for_each", "fold",
}
HASH_TYPE = re.compile(r"(collections::hash::(map|set)|collections::hash_map|collections::hash_set|collections::HashMap|collections::HashSet|hashbrown)")
GLOBAL_STATE_CRATES = {"yansi", "owo_colors", "colored", "termcolor", "anstream", "anstyle_query", "supports_color", "rand", "fastrand", "getrandom",
                       "chrono", "time", "log", "once_cell", "lazy_static", "parking_lot", "ahash"}
PTR_IDENTITY = re.compile(r"(^|::)ptr::(eq|addr_eq)$|::ptr_eq$|::(addr|expose_provenance|expose_addr)$|::as_ptr$")


def load_table():
    with open(os.path.join(harness.VERIF, "tables", "effects.toml"), "rb") as fh:
        return tomllib.load(fh)


def shortest_paths(F: Facts, entries, boundary=()):
    """BFS tree over the call graph: function -> predecessor (for printing a witness path).
    Boundary functions are recorded but not expanded."""
    pred = {}
    dq = deque()
    for e in entries:
        pred[e] = None
        dq.append(e)
    while dq:
        k = dq.popleft()
        if k in boundary:
            continue
        for t in sorted(F.callgraph.get(k, ())):
            if t not in pred:
                pred[t] = k
                dq.append(t)
    return pred


def path_to(pred, k):
    out = []
    while k is not None:
        out.append(k)
        k = pred.get(k)
    return list(reversed(out))


def is_hash_iteration(ck: str, t) -> bool:
    if not HASH_TYPE.search(ck):
        return False
    last = ck.rsplit("::", 1)[-1]
    return last in HASH_ITER_METHODS


def from_tracing(macros):
    return any("tracing::" in m or m.endswith(":instrument") for m in macros)


def from_fmt(macros):
    return any(m.split(":", 1)[-1] in ("format_args", "format", "write", "writeln", "panic", "assert", "assert_eq",
                                        "assert_ne", "debug_assert", "debug_assert_eq", "unreachable", "todo",
                                        "$crate::format_args", "$crate::panic::panic_2021", "$crate::const_format_args",
                                        "$crate::__export::format_args", "format_args_nl", "print", "println")
               or "format_args" in m or "panic" in m for m in macros)


def run(chk: harness.Check):
    paths, th = harness.mir_facts("Q")
    F = Facts(paths)
    tab = load_table()
    allow = {(a["function"], a["effect"], a["detail"]): a for a in tab.get("allow", [])}
    used_allow = set()

    chk.explanation = (
        "Effect analysis over the call graph of the current tree (MIR, resolved callees, closures, fn items as values, "
        "class-hierarchy resolution of generic trait calls): no function reachable from the parse entry points accesses "
        "a static/thread-local, uses interior mutability or synchronisation on a non-local place, iterates a hash table, "
        "reads ambient inputs (including calls into dependencies with process-wide switches such as yansi), compares pointer identities or performs unsafe operations, except the reviewed entries of "
        "tables/effects.toml; nothing evaluated inside a tracing macro takes a `&mut` argument or consumes an iterator; the parser type transitively contains no interior-mutable type; entry points take &self. "
        "This decides the absence of hidden-state/nondeterminism sources (a necessary condition), not equality of results.")
    chk.trusted = ["rustc MIR construction and trait resolution (nightly)", "std and dependency crates summarised by path (pure unless matched by an effect pattern)",
                   "tracing dispatcher: calls return no data into the parse", "user-supplied ParseOptions closures and dyn Error sources are a stated boundary"]

    # ---- anchors --------------------------------------------------------------------------
    entries = []
    for e in ENTRIES:
        if e in F.funcs:
            entries.append(e)
            chk.ok("C18.entry", e, f"{F.funcs[e].file}:{F.funcs[e].line}")
        else:
            # allow generic spelling drift: match by suffix without generic args
            base = re.sub(r"::<[^:]*>", "", e)
            cands = [k for k in F.funcs if re.sub(r"::<[^:]*>", "", k) == base and "{closure" not in k]
            if len(cands) == 1:
                entries.append(cands[0])
                chk.ok("C18.entry", e, cands[0])
            else:
                chk.fail("anchor-missing", e, "", f"anchor-missing: parse entry point {e} not found in the fact base")
    boundary = {b["function"]: b for b in tab.get("boundary", [])}
    for b in boundary:
        chk.expect(b in F.funcs, "C18.boundary", b, "", f"anchor-missing: boundary function {b} not found",
                   sample=f"{b}: not expanded — {boundary[b]['reason']}")
    pred = shortest_paths(F, entries, boundary)
    reach_local = [k for k in pred if k in F.funcs and k not in boundary]
    chk.analysed = {"facts": th, "entry_points": len(entries), "reachable_functions": len(pred),
                    "reachable_local_bodies": len(reach_local), "total_local_bodies": len(F.funcs)}
    chk.floor("C18.reach", "reachable local bodies", len(reach_local), 400)

    static_keys = {s["key"]: s for s in F.statics}

    def judge(fk, effect, detail, where, msg, sample=None):
        """An effect site: discharged only by an exact allow-list entry."""
        region = region_of(fk)
        a = allow.get((region, effect, detail))
        key = f"{region}|{effect}|{detail}"
        if a is not None:
            used_allow.add((region, effect, detail))
            chk.ok("C18." + effect, key, sample or f"{where}: allowed — {a['reason']}")
        else:
            wp = " -> ".join(x.replace("cooklang::", "") for x in path_to(pred, fk)[-6:])
            chk.fail("C18." + effect, key, where, f"{msg}; reachable via {wp}", {"path": path_to(pred, fk)})

    n_sites = {"calls": 0, "stmts": 0}
    for fk in sorted(reach_local):
        f = F.funcs[fk]
        # initialisers of statics are analysed too (they are in `pred` only if referenced)
        for i, j, s in f.iter_stmts():
            n_sites["stmts"] += 1
            if s["k"] != "assign":
                continue
            macros = s.get("macros", [])
            rv = s["rv"]
            where = f"{f.file}:{s.get('line')}"
            # N1 static access
            for op in rvalue_operands(rv):
                c = op.get("const")
                if c and "static" in c:
                    sk = norm(c["static"])
                    sdef = static_keys.get(sk)
                    if sdef and from_tracing(sdef.get("macros", [])):
                        continue  # tracing callsite statics, by macro origin
                    judge(fk, "static", sk, where, f"access to static {sk}")
            if rv["k"] == "tls":
                judge(fk, "static", norm(rv["def"]), where, f"access to thread-local {rv['def']}")
            # N4 pointer -> integer
            if rv["k"] == "cast" and rv["kind"] in ("PointerExposeProvenance", "PointerWithExposedProvenance"):
                judge(fk, "ptr-int", rv["kind"], where, "pointer/integer cast (address leaks into a value)")
            # N5 raw pointer dereference
            if not macros:
                places = [s["place"]]
                if "place" in rv:
                    places.append(rv["place"])
                for op in rvalue_operands(rv):
                    p = op.get("copy") or op.get("move")
                    if p:
                        places.append(p)
                for p in places:
                    if p["p"] and p["p"][0] == "*" and f.local_ty(p["l"]).startswith("*"):
                        judge(fk, "unsafe", "raw-deref", where, "dereference of a raw pointer")
        for i, t in f.calls():
            n_sites["calls"] += 1
            ck = callee_key(t)
            macros = t.get("macros", [])
            where = f"{f.file}:{t.get('line')}"
            if ck is None:
                continue
            c = t["callee"]
            if from_tracing(macros):
                continue
            # N2 interior mutability / synchronisation
            self_tys = " ".join(c.get("rargs", []) or c.get("args", []))
            if INTERIOR.search(ck):
                # receiver must be a function-local value
                recv_ok = receiver_is_local(F, f, t)
                m = INTERIOR.search(ck)
                detail = ck
                if recv_ok:
                    chk.ok("C18.interior", f"{region_of(fk)}|{detail}", f"{where}: {ck} on a function-local value")
                else:
                    judge(fk, "interior", detail, where, f"interior mutability / synchronisation through {ck} on a non-local place")
            # N3 hash iteration
            if is_hash_iteration(ck, t):
                judge(fk, "hash-iter", ck, where, f"iteration over a hash table ({ck}): order may leak into the result")
            # N4 ambient
            if AMBIENT.search(ck):
                judge(fk, "ambient", ck, where, f"ambient input {ck}")
            # dependencies that keep a process-wide switch or generator (yansi: global enable flag consulted whenever a Painted value is
            # formatted; colour/rng/clock crates likewise): styled or random text made during a parse depends on who toggled it last
            if c.get("rkrate", c.get("krate")) in GLOBAL_STATE_CRATES:
                judge(fk, "ambient", ck, where, f"call into `{c.get('rkrate', c.get('krate'))}`, which consults process-wide state ({ck})")
            if PTR_IDENTITY.search(ck) and c.get("rkrate", c.get("krate")) in ("core", "std", "alloc"):
                judge(fk, "ptr-identity", ck, where, f"pointer identity / address observed through {ck}")
            # N5 unsafe fn call (compiler-made ones from format_args!/panic! filtered by macro origin)
            if c.get("unsafe") and not from_fmt(macros):
                judge(fk, "unsafe", ck, where, f"call to unsafe fn {ck}")

    chk.analysed.update(n_sites)

    # every allow entry must still match something (stale entries are reported, not fatal: one-directional)
    stale = [k for k in allow if k not in used_allow]
    chk.notes["stale_allow_entries"] = ["|".join(k) for k in stale]

    tracing_observation_only(chk, F, reach_local)

    # ---- D2: no writable shared state by type ----------------------------------------------
    bad_names = re.compile(r"\b(Cell|RefCell|UnsafeCell|OnceCell|LazyCell|Mutex|RwLock|OnceLock|LazyLock|Once|Atomic[A-Za-z0-9]+|Condvar)\b")
    root = "cooklang::CooklangParser"
    if root not in F.adts:
        chk.fail("anchor-missing", root, "", "anchor-missing: struct CooklangParser not found")
    else:
        seen = set()
        st = [(root, [root])]
        while st:
            k, trail = st.pop()
            if k in seen:
                continue
            seen.add(k)
            a = F.adts.get(k)
            if a is None:
                continue
            for v in a["variants"]:
                for fld in v["fields"]:
                    ty = norm(fld["ty"])
                    names = type_names(ty)
                    for nm in names:
                        short = nm.rsplit("::", 1)[-1]
                        if bad_names.fullmatch(short) and nm.split("::")[0] in ("std", "core", "alloc", "once_cell", "parking_lot"):
                            chk.fail("C18.type-state", f"{k}.{fld['name']}:{short}", f"{a['file']}:{a['line']}",
                                     f"shared parser state contains interior-mutable type {nm} at {' -> '.join(trail)}.{fld['name']}")
                        else:
                            full = nm if nm.startswith("cooklang::") else "cooklang::" + nm
                            if full in F.adts and full not in seen:
                                st.append((full, trail + [f"{fld['name']}: {short}"]))
                    chk.ok("C18.type-state", f"{k}.{fld['name']}")
        chk.analysed["parser_state_types"] = sorted(seen)
        chk.floor("C18.type-state", "types reachable from CooklangParser", len(seen), 5)
        at = F.auto_traits.get(root)
        chk.expect(bool(at and at["send"] and at["sync"]), "C18.send-sync", root, "",
                   "CooklangParser is not Send + Sync", sample=f"{root}: Send={at and at['send']} Sync={at and at['sync']} (trait solver)")
        fr = F.adts[root].get("freeze")
        chk.expect(fr is True, "C18.freeze", root, "", "CooklangParser is not Freeze (contains UnsafeCell inline)",
                   sample=f"{root}: Freeze={fr}")

    # entry points take &self (shared reference): first parameter type
    for e in entries:
        f = F.funcs[e]
        if "CooklangParser::" in e:
            ty = f.local_ty(1)
            chk.expect(ty.startswith("&") and not ty.startswith("&mut"), "C18.shared-self", e, f"{f.file}:{f.line}",
                       f"parse entry point takes {ty} instead of &self", sample=f"{e}: self is {ty}")
    # no reachable function takes &mut Converter
    for fk in reach_local:
        f = F.funcs[fk]
        for l in range(1, f.argc + 1):
            ty = f.local_ty(l)
            if ty.startswith("&mut") and re.search(r"\bconvert::Converter\b", ty):
                chk.fail("C18.shared-self", f"{fk}|&mut Converter", f"{f.file}:{f.line}",
                         f"function reachable from parsing takes {ty}")
    # positive control: the rule machinery must recognise effects on a fixture (see fixtures/effects)
    positive_control(chk)
    if chk.tier == "thorough":
        import thorough
        ok, n, out = thorough.witnesses()
        chk.expect(ok and n >= 9, "C18.D3-witness", "doc-test witnesses", "witnesses/src/lib.rs",
                   f"type-level witnesses failed to hold ({n} passed): {out}", sample=f"{n} compile-pass / compile_fail witnesses hold (CooklangParser: Send + Sync, scoped threads share &parser)")


TRACE_OK = ("tracing::", "<tracing::", "tracing_core::", "<tracing_core::", "core::fmt::", "std::fmt::", "<std::fmt::", "<core::fmt::",
            "std::option::Option::<T>::expect", "core::panicking::", "std::panicking::")


def tracing_observation_only(chk, F, reach_local):
    """Whether a tracing callsite is enabled depends on the process-wide / per-thread subscriber, so anything evaluated as
    part of a tracing macro must be observation only: besides tracing's own and fmt's functions (and the closures the
    macros generate), a call made inside a tracing macro may not receive a `&mut` argument or consume an iterator —
    otherwise the parse result depends on whether somebody is listening."""
    from cfgq import call_result_edges
    from facts import callee_def
    n = 0
    for fk in sorted(reach_local):
        f = F.funcs[fk]
        gates = []
        for b, t in f.calls():
            if (callee_key(t) or "").endswith("tracing::__macro_support::__is_enabled"):
                gates += call_result_edges(f, b)[0]
        if not gates:
            continue
        for b, t in f.calls():
            if not any(f.edge_dominates(e, b) for e in gates):
                continue
            n += 1
            ck = callee_key(t) or callee_def(t) or ""
            if ck.startswith(TRACE_OK) or "{closure" in ck.rsplit("::", 1)[-1]:
                continue
            muts = []
            for a in t.get("args", []):
                p = a.get("move") or a.get("copy")
                if p is not None and not p["p"]:
                    ty = f.local_ty(p["l"]) or ""
                    if ty.startswith("&mut") or "Iter<" in ty or "Peekable<" in ty or "IntoIter<" in ty:
                        muts.append(ty[:50])
            last = ck.rsplit("::", 1)[-1]
            consuming = last in ("count", "next", "last", "sum", "fold", "for_each", "collect", "nth", "position", "find", "any", "all", "take", "drain",
                                 "pop", "push", "insert", "remove", "clear", "next_back", "advance_by", "retain", "extend", "swap", "sort")
            chk.expect(not muts and not (consuming and t.get("args")), "C18.tracing-pure", f"{region_of(fk)}|{last}", f.where(b),
                       f"`{last}` runs only when a tracing subscriber enables the callsite (it is evaluated inside the enabled branch of a tracing macro) and takes a "
                       f"mutable / consuming argument {muts[:1]}: the parse then depends on the tracing configuration of the process or thread",
                       sample=f"{f.where(b)}: {last} inside an enabled-callsite branch takes no &mut / iterator")
    chk.notes["calls_inside_tracing_macros"] = n


def receiver_is_local(F: Facts, f, t) -> bool:
    """True when the first argument of the call is (a reference to) a plain local variable of
    the enclosing function region (not a parameter, static, or field of one)."""
    from flow import resolve, walk
    args = t.get("args", [])
    if not args:
        # constructors such as OnceCell::new() produce a value: harmless by themselves
        return True
    e = resolve(f, args[0])
    for n in walk(e):
        if n[0] == "param":
            return False
        if n[0] == "const" and "static" in n[1]:
            return False
        if n[0] == "upvar":
            # captured variable: find the defining local in the enclosing function
            parent = F.funcs.get(f.root) if f.root else None
            name = n[1].split(".")[0]
            if parent is None:
                return False
            idxs = [i for i, l in enumerate(parent.locals) if l.get("name") == name]
            if not idxs or any(1 <= i <= parent.argc for i in idxs):
                return False
    return True


def positive_control(chk):
    """Expected-zero rules must still be able to fire: run the classifiers on synthetic callee
    keys that every run must flag."""
    must = [
        ("interior", INTERIOR, "std::sync::Mutex::<T>::lock"),
        ("interior", INTERIOR, "core::sync::atomic::AtomicUsize::fetch_add"),
        ("interior", INTERIOR, "std::thread::LocalKey::<T>::with"),
        ("ambient", AMBIENT, "std::time::Instant::now"),
        ("ambient", AMBIENT, "std::env::var"),
        ("ambient", AMBIENT, "std::path::Path::canonicalize"),
        ("ptr", PTR_IDENTITY, "std::ptr::eq"),
    ]
    for eff, rx, key in must:
        chk.expect(bool(rx.search(key)), "C18.positive-control", f"{eff}:{key}", "", f"classifier {eff} no longer matches {key}",
                   sample=f"{key} is classified as {eff}")
    chk.expect(is_hash_iteration("std::collections::HashMap::<K, V, S, A>::iter", None) and
               is_hash_iteration("<&std::collections::HashMap<K, V, S, A> as std::iter::IntoIterator>::into_iter", None) and
               is_hash_iteration("<std::collections::hash_map::Iter<K, V> as std::iter::Iterator>::next", None) and
               not is_hash_iteration("std::collections::HashMap::<K, V, S, A>::get", None),
               "C18.positive-control", "hash-iter", "", "hash iteration classifier broken", sample="HashMap::iter flagged, HashMap::get not")
