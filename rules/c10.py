"""C10 — grouping and listing ingredients conserves quantities.

Decided clauses:
  D1  no path through GroupedQuantity::add / GroupedValue::add drops its argument: every
      entry->return path passes a store event that has the argument in its lineage; every
      iteration of IngredientList::categorize stores the quantity;
  D2  every reader of a GroupedQuantity (iter, into_vec, len, is_empty) covers all four stores;
  D3  no quantity map insertion silently overwrites: the result of each insert is used, the key
      is known fresh, or the site is a reviewed entry;
  D4  lineage of all_quantities / all_amounts / group_* / add_recipe (definition + references,
      definitions only, listed-only, display-name key).
Not decided: numerical sums, fit preserving totals, order."""
from __future__ import annotations

import os
import re
import tomllib

import harness
from facts import Facts, callee_key, norm, operand_local, region_of
from flow import resolve, resolve_place, resolve_rvalue, leaves, show, walk
from cfgq import (calls_to, region_calls_to, arg_leaves, arg_text, arg_expr, has_field, call_result_edges, must_pass, in_loop)
from c03 import acyclic_without
from c16 import result_used, recv_name

STORES = ["known", "unknown", "other", "no_unit"]


def full(e):
    import flow
    return flow.show(e, -50)


def store_blocks(f, argname):
    """Blocks that store a value whose lineage contains parameter `argname` into self (or through a
    reference obtained from self)."""
    K = {}
    tag = "param:" + argname
    for b, t in f.calls():
        ck = callee_key(t) or ""
        last = ck.rsplit("::", 1)[-1]
        if last in ("push", "insert", "push_back", "extend") and t.get("args"):
            recv = arg_leaves(f, t, 0)
            vals = set()
            for i in range(1, len(t["args"])):
                vals |= arg_leaves(f, t, i)
            if any(l.startswith("param:self") for l in recv) and any(l == tag or l.startswith(tag + ".") for l in vals):
                K[b] = f"{last} into {arg_text(f, t, 0)[:40]}"
    for i, j, s in f.iter_stmts():
        if s["k"] != "assign" or not s["place"]["p"]:
            continue
        # a write through a projection: into self.<field>, or through a reference (`*stored = ..`)
        dest = resolve_place(f, {"l": s["place"]["l"], "p": []})
        dl = leaves(dest)
        through_self = any(l.startswith("param:self") for l in dl) or f.local_name(s["place"]["l"]) == "self"
        if not through_self:
            continue
        e = resolve_rvalue(f, s["rv"], 0, frozenset(), i)
        vl = leaves(e)
        if any(l == tag or l.startswith(tag + ".") for l in vl):
            K[i] = f"assignment to {show(dest)[:40]}"
    return K


def run(chk: harness.Check):
    paths, th = harness.mir_facts("Q")
    F = Facts(paths)
    chk.explanation = (
        "Graph and lineage rules on MIR: (D1) MustPass — in GroupedQuantity::add and GroupedValue::add every entry->return path passes a store "
        "(push / insert / assignment into self or through a reference obtained from self) whose value has the added quantity in its lineage, the failing "
        "path is reported; every cycle of the categorize loop stores the quantity; (D2) each of iter/into_vec/len/is_empty reads all four stores "
        "(known, unknown, other, no_unit) directly or through another covering reader; (D3) every insert into a quantity map has its result used, is "
        "dominated by a test that the key is absent, or is a reviewed entry; (D4) all_quantities/all_amounts chain the own quantity with the quantities of "
        "referenced_from indices taken from the passed slice, group_* list definitions only, add_recipe lists should_be_listed() ingredients under display_name(). "
        "(D8 = C09.D5/D8) a range total re-expressed in another unit has both ends converted; (D7) every number in the result of <Value as TryAdd>::try_add is Number::value() of the left operand plus Number::value() of the right one, start with start and end with end. "
        "Conservation of numbers is otherwise not decided — only that no path or reader structurally drops a quantity.")
    chk.trusted = ["rustc MIR", "Vec::push / HashMap::insert store their argument", "tables/inserts.toml"]
    chk.analysed = {"facts": th}
    d1_no_drop(chk, F)
    d2_readers(chk, F)
    d3_inserts(chk, F)
    d4_lineage(chk, F)
    d5_text_aside(chk, F)
    d6_common_unit(chk, F)
    d7_sum_formula(chk, F)
    # D8: grouping fits every total to a nicer unit (GroupedQuantity::fit -> Quantity::fit -> fit_fraction): "never lose or invent
    # amounts" needs both ends of a re-expressed range converted to the new unit — the obligation decided for C09
    import c09
    sub = harness.Check("C09", chk.tier)
    c09.run(sub)
    harness.fold(chk, sub, lambda r: "C10.D8-fit." + r.split(".", 1)[1] if r.startswith("C09.") else r,
                 keep=lambda r: r in ("C09.D5-fit-range", "C09.D8-value-unit-together", "anchor-missing"))


def d1_no_drop(chk, F):
    for fname, arg in (("cooklang::quantity::GroupedQuantity::add", "q"), ("cooklang::quantity::GroupedValue::add", "value")):
        f = F.funcs.get(fname)
        if f is None:
            chk.fail("anchor-missing", fname, "", f"anchor-missing: {fname} not found")
            continue
        K = store_blocks(f, arg)
        chk.floor("C10.D1-no-drop", f"{fname}|stores", len(K), 3, f"{f.file}:{f.line}")
        rets = f.returns()
        reach = f.reach_from(0, removed_nodes=set(K))
        bad = [r for r in rets if r in reach]
        if bad:
            # witness path
            path = _witness(f, set(K), bad[0])
            lines = [f.blocks[b]["term"].get("line") for b in path if f.blocks[b]["term"].get("line")]
            chk.fail("C10.D1-no-drop", f"{fname}|path", f.where(bad[0]),
                     f"a path through {fname.split('::')[-2]}::add returns without storing `{arg}` anywhere (through lines {sorted(set(lines))[:12]}): the quantity is dropped",
                     {"path": path})
        else:
            chk.ok("C10.D1-no-drop", f"{fname}|path", f"{f.file}:{f.line}: every path stores `{arg}` ({len(K)} store sites: {sorted(set(K.values()))[:4]})")
    # categorize: every iteration inserts the quantity
    f = F.funcs.get("cooklang::ingredient_list::IngredientList::categorize")
    if f is None:
        chk.fail("anchor-missing", "categorize", "", "anchor-missing: IngredientList::categorize not found")
        return
    ins = {}
    for b, t in f.calls():
        ck = callee_key(t) or ""
        if ck.endswith("::insert") and len(t.get("args", [])) >= 3:
            ins[b] = arg_text(f, t, 0)
    loops = [scc for scc in f.sccs() if any(b in scc for b in ins)]
    ok = bool(loops)
    for scc in loops:
        a, cyc = acyclic_without(f, scc, set(ins))
        ok = ok and a
    chk.expect(ok and len(ins) >= 2, "C10.D1-no-drop", "categorize|loop", f"{f.file}:{f.line}",
               "an iteration of IngredientList::categorize can finish without inserting the quantity into a category or into `other`",
               sample=f"{f.file}:{f.line}: every iteration inserts into a category list or `other` ({len(ins)} insert sites)")


def d7_sum_formula(chk, F):
    """'the grouped total equals the sum of the inputs (ranges end-wise)': every number that <Value as TryAdd>::try_add puts in its
    result is Number::value() of the left operand plus Number::value() of the right one — value() includes a fraction's recorded
    error — start with start and end with end; nothing is rebuilt from the fraction components or rounded on the way."""
    from cfgq import aggregates
    ks = [k for k in F.funcs if k.endswith("try_add") and "<quantity::Value as quantity::TryAdd>" in k]
    if len(ks) != 1:
        chk.fail("anchor-missing", "Value::try_add", "", f"anchor-missing: <Value as TryAdd>::try_add found {len(ks)} times")
        return
    R = "C10.D7-sum-formula"
    sites = [(ff, i, st, d) for ff, i, st, d in aggregates(F, ks[0], "quantity::Value") if st["rv"]["variant"] in ("Number", "Range")]
    chk.floor(R, "numeric Value constructions in Value::try_add", len(sites), 3)
    for n, (ff, i, st, d) in enumerate(sites):
        for fld, op in d.items():
            e = resolve(ff, op)
            while e[0] == "call" and e[1].endswith(("Into<U>>::into", "From<T>>::from", "From<f64>>::from")) and len(e[2]) == 1:
                e = e[2][0]
            where = f"{ff.file}:{st.get('line')}"
            ok = e[0] == "bin" and e[1].startswith("Add")
            why = "is not a float sum"
            if ok:
                sides = [e[2], e[3]]
                ok = all(x[0] == "call" and x[1].endswith("quantity::Number::value") for x in sides)
                why = "does not add Number::value() of both operands"
                if ok:
                    ls = set().union(*(leaves(x) for x in sides))
                    txt = show(e, -80)
                    want = {"start": (".start", ".end"), "end": (".end", ".start")}.get(fld)
                    ok = any(l.startswith("param:self") for l in ls) and any(l.startswith("param:rhs") for l in ls)
                    why = "does not take one operand from each side"
                    if ok and want:
                        ok = want[0] in txt and want[1] not in txt
                        why = f"mixes range ends (the {fld} of the sum must come from the {fld}s)"
            chk.expect(ok, R, f"try_add|{st['rv']['variant']}#{n}.{fld}", where,
                       f"the {fld if fld != '0' else 'number'} of a sum {why}: it is {show(e, -80)[:140]} — the grouped total is then not the sum of the inputs "
                       "(a fraction's recorded error or one addend is lost)",
                       sample=f"{where}: {st['rv']['variant']}.{fld} = value(self…) + value(rhs…)")


def d6_common_unit(chk, F):
    """try_add converts the right operand and keeps the LEFT quantity's unit label on the sum, so the common unit that
    compatible_unit reports must be the left operand's unit: every Some(unit) it returns derives from self.unit, never from rhs."""
    fs = [g for g in F.find("quantity::Quantity::<V>::compatible_unit") if not g.is_closure()]
    if len(fs) != 1:
        chk.fail("anchor-missing", "compatible_unit", "", "anchor-missing: Quantity::compatible_unit not found")
        return
    f = fs[0]
    n = 0
    for i, j, st in f.iter_stmts():
        rv = st.get("rv", {})
        if st["k"] == "assign" and rv.get("k") == "agg" and rv.get("agg") == "adt" and norm(rv["adt"]).endswith("option::Option") and rv["variant"] == "Some" \
                and any("Arc<convert::Unit>" in x.replace(" ", "") or "Unit" in x for x in rv.get("targs", [])):
            e = resolve(f, rv["ops"][0])
            ls = leaves(e)
            if not any(l.endswith("Converter::find_unit") for l in ls):
                continue
            n += 1
            from_self = any(l.startswith("param:self") for l in ls)
            from_rhs = any(l.startswith("param:rhs") for l in ls)
            chk.expect(from_self and not from_rhs, "C10.D6-common-unit", f"compatible_unit|Some#{n}", f"{f.file}:{st.get('line')}",
                       "compatible_unit can report the RIGHT operand's unit as the common unit: try_add converts the right operand to it and labels the sum with the "
                       "left unit, so the total is off by the ratio of the two units (2 dl + 100 ml = 102 dl)",
                       sample=f"{f.file}:{st.get('line')}: common unit = find_unit(self.unit)")
    chk.floor("C10.D6-common-unit", "Some(unit) results of compatible_unit", n, 1, f"{f.file}:{f.line}")


def d5_text_aside(chk, F):
    """A text value can never be (or be added to) a running total: in GroupedQuantity::add every store of `q` into an
    accumulator (no_unit, known[..], unknown) lies under the `false` outcome of q.value.is_text(); text goes to `other`."""
    from cfgq import calls_to, call_result_edges
    fname = "cooklang::quantity::GroupedQuantity::add"
    f = F.funcs.get(fname)
    if f is None:
        chk.fail("anchor-missing", fname, "", f"anchor-missing: {fname} not found")
        return
    K = store_blocks(f, "q")
    acc = {b: d for b, d in K.items() if ".other" not in d}
    chk.floor("C10.D5-text-aside", "accumulator stores", len(acc), 4, f"{f.file}:{f.line}")
    tests = [(b, t) for b, t in calls_to(f, "QuantityValue>::is_text") + calls_to(f, "Value::is_text")
             if any(l == "param:q" or l.startswith("param:q.") for l in arg_leaves(f, t, 0))]
    fe = []
    for b, t in tests:
        fe += call_result_edges(f, b)[1]
    for b, d in sorted(acc.items()):
        ok = any(f.edge_dominates(e, b) for e in fe)
        chk.expect(ok, "C10.D5-text-aside", f"GroupedQuantity::add|{d.split('(')[0][:30]}#{sorted(acc).index(b)}", f.where(b),
                   f"`q` is stored into a running total ({d}) on a path where q.value.is_text() was not excluded: a text value becomes the "
                   "accumulator and later numbers of that class are set aside instead of summed",
                   sample=f"{f.where(b)}: {d} under !q.value.is_text()")


def _witness(f, K, target):
    prev = {0: None}
    st = [0]
    while st:
        x = st.pop()
        if x == target:
            break
        for s in f.succ[x]:
            if s in K or s in prev:
                continue
            prev[s] = x
            st.append(s)
    out = []
    x = target
    while x is not None and len(out) < 200:
        out.append(x)
        x = prev.get(x)
    return list(reversed(out))


def d2_readers(chk, F):
    base = "cooklang::quantity::GroupedQuantity::"
    readers = ["iter", "into_vec", "len", "is_empty"]
    cover = {}
    calls = {}
    for r in readers:
        f = F.funcs.get(base + r)
        if f is None:
            chk.fail("anchor-missing", base + r, "", f"anchor-missing: GroupedQuantity::{r} not found")
            continue
        fields = set()
        called = set()
        for g in F.region_funcs(base + r):
            for i, j, s in g.iter_stmts():
                for p in _places_of(s):
                    for st_ in STORES:
                        if "." + st_ in p["p"] and _rooted_at_self(g, p):
                            fields.add(st_)
            for b, t in g.calls():
                ck = callee_key(t) or ""
                for p in t.get("args", []):
                    pl = p.get("copy") or p.get("move")
                    if pl:
                        for st_ in STORES:
                            if "." + st_ in pl["p"] and _rooted_at_self(g, pl):
                                fields.add(st_)
                for r2 in readers:
                    if ck == base + r2 and r2 != r:
                        called.add(r2)
        cover[r] = fields
        calls[r] = called
    # propagate through calls to other readers
    changed = True
    while changed:
        changed = False
        for r in cover:
            for c in calls.get(r, ()):
                new = cover[r] | cover.get(c, set())
                if new != cover[r]:
                    cover[r] = new
                    changed = True
    for r in readers:
        if r not in cover:
            continue
        f = F.funcs[base + r]
        missing = [s for s in STORES if s not in cover[r]]
        chk.expect(not missing, "C10.D2-readers", f"GroupedQuantity::{r}", f"{f.file}:{f.line}",
                   f"GroupedQuantity::{r} does not read the store(s) {missing}: quantities kept there are invisible to it",
                   sample=f"{f.file}:{f.line}: {r} covers {sorted(cover[r])}" + (f" via {sorted(calls[r])}" if calls[r] else ""))
    # merge adds every element of other.iter()
    f = F.funcs.get(base + "merge")
    if f is None:
        chk.fail("anchor-missing", base + "merge", "", "anchor-missing: GroupedQuantity::merge not found")
    else:
        adds = [b for b, t in calls_to(f, "GroupedQuantity::add")]
        its = [b for b, t in calls_to(f, "GroupedQuantity::iter") if has_field(arg_leaves(f, t, 0), "param:other") or "other" in arg_text(f, t, 0)]
        ok = bool(adds) and bool(its) and all(in_loop(f, a) for a in adds)
        if ok:
            for scc in f.sccs():
                if adds[0] in scc:
                    ok, _ = acyclic_without(f, scc, set(adds))
        chk.expect(ok, "C10.D2-readers", "GroupedQuantity::merge", f"{f.file}:{f.line}",
                   "GroupedQuantity::merge no longer adds every element of other.iter() to self",
                   sample=f"{f.file}:{f.line}: merge calls add for every element of other.iter()")
    f = F.funcs.get("cooklang::quantity::GroupedValue::merge")
    if f is not None:
        adds = [b for b, t in calls_to(f, "GroupedValue::add")]
        ok = bool(adds) and all(in_loop(f, a) for a in adds)
        chk.expect(ok, "C10.D2-readers", "GroupedValue::merge", f"{f.file}:{f.line}", "GroupedValue::merge no longer adds every value of other",
                   sample=f"{f.file}:{f.line}: merge calls add in the loop over other.0")


def _places_of(s):
    out = []
    if s["k"] != "assign":
        return out
    out.append(s["place"])
    rv = s["rv"]
    if "place" in rv:
        out.append(rv["place"])
    for k in ("op", "l", "r", "x"):
        op = rv.get(k)
        if isinstance(op, dict):
            p = op.get("copy") or op.get("move")
            if p:
                out.append(p)
    for op in rv.get("ops", []):
        p = op.get("copy") or op.get("move")
        if p:
            out.append(p)
    return out


def _rooted_at_self(g, p):
    if g.is_closure():
        return True  # captured self fields appear as upvars of the reader's closures
    return g.local_name(p["l"]) == "self" or p["l"] == 1


def d3_inserts(chk, F):
    with open(os.path.join(harness.VERIF, "tables", "inserts.toml"), "rb") as fh:
        tab = tomllib.load(fh)
    allow = {(a["function"], a["map"]): a for a in tab.get("override", []) if a["property"] == "C10"}
    n = 0
    for k, f in sorted(F.funcs.items()):
        if f.generated or f.crate != "cooklang":
            continue
        if not (k.startswith("cooklang::quantity::") or k.startswith("cooklang::ingredient_list::") or k.startswith("cooklang::model::")):
            continue
        for b, t in f.calls():
            ck = callee_key(t) or ""
            if not re.search(r"(HashMap::<K, V, S, A>|BTreeMap::<K, V, A>)::insert$", ck):
                continue
            n += 1
            region = region_of(k)
            mapname = recv_name(f, t["args"][0])
            mapkey = "categories" if "categor" in arg_text(f, t, 0) and "other" not in mapname else mapname
            key = f"{region}|insert|{mapkey}"
            if result_used(f, t):
                chk.ok("C10.D3-insert", key, f"{f.where(b)}: insert result is inspected")
                continue
            # dominated by a test that the key is absent (get / get_mut / contains_key returned None / false)?
            fresh = False
            for cb, ct in f.calls():
                cck = callee_key(ct) or ""
                if re.search(r"::(get|get_mut)$", cck) and ct.get("args") and recv_name(f, ct["args"][0]) == mapname:
                    from cfgq import option_some_edges
                    somes = option_some_edges(f, ct["dest"]["l"])
                    # insert must not be reachable from the Some outcome, and must use the key that was looked up
                    if somes and all(b not in f.reach_from(tgt) for _, tgt in somes) and f.node_dominates(cb, b):
                        k_look = _key_core(arg_expr(f, ct, 1))
                        k_ins = _key_core(arg_expr(f, t, 1))
                        if k_look == k_ins:
                            fresh = True
                        else:
                            chk.fail("C10.D3-insert", key + "|key", f.where(b),
                                     f"`{mapkey}` is looked up with `{k_look[:60]}` but the new entry is inserted under `{k_ins[:60]}`: the next lookup misses it and the "
                                     "stored quantity is overwritten")
                            fresh = None
            a = allow.get((region, mapkey))
            if fresh is None:
                continue
            if fresh:
                chk.ok("C10.D3-insert", key, f"{f.where(b)}: insert only on the key-absent outcome of a lookup in the same map")
            elif a is not None and a.get("finding"):
                chk.fail("C10.D3-insert", key, f.where(b), f"insert into `{mapkey}` overwrites an existing entry — {a['reason']}")
            elif a is not None:
                chk.ok("C10.D3-insert", key, f"{f.where(b)}: reviewed — {a['reason']}")
            else:
                chk.fail("C10.D3-insert", key, f.where(b),
                         f"the result of the insert into `{mapkey}` in {region} is discarded and the key is not known to be absent: an existing quantity would be overwritten")
    chk.floor("C10.D3-insert", "quantity map inserts", n, 3)


def _key_core(e):
    """key expression without ownership conversions (to_string / to_owned / clone / borrow)"""
    while True:
        if e[0] == "ref":
            e = e[1]
        elif e[0] == "place" and all(p == "*" for p in e[2]):
            e = e[1]
        elif e[0] == "call" and e[2] and e[1].rsplit("::", 1)[-1] in ("to_string", "to_owned", "clone", "into", "from", "as_str", "as_ref", "borrow", "deref"):
            e = e[2][0]
        else:
            return full(e)


def _is_param(e):
    """the closure's parameter itself, or a copy out of it (`|&i|` / `*i`): one parameter leaf, nothing computed"""
    if e[0] == "param":
        return True
    ls = leaves(e)
    return len(ls) == 1 and next(iter(ls)).startswith("param:") and not any(x[0] in ("call", "bin", "const", "agg", "phi") for x in walk(e))


def d4_lineage(chk, F):
    for fname, tbl, fld in (("cooklang::model::Ingredient::all_quantities", "all_ingredients", ".quantity"),
                            ("cooklang::model::Cookware::all_amounts", "all_cookware", ".quantity")):
        f = F.funcs.get(fname)
        if f is None:
            chk.fail("anchor-missing", fname, "", f"anchor-missing: {fname} not found")
            continue
        e = resolve_place(f, {"l": 0, "p": []})
        ls = leaves(e)
        txt = full(e)
        own = any(l.endswith("iter::once") for l in ls) and "param:self.quantity" in ls
        refs = any(l.endswith("referenced_from") for l in ls) and "param:self.relation" in ls
        flat = any(l.endswith("Iterator::flatten") for l in ls) and any(l.endswith("Iterator::chain") for l in ls)
        clos = [n[2] for n in walk(e) if n[0] == "agg" and n[1] == "closure"]
        idx_ok = False
        for c in clos:
            g = F.funcs.get(c)
            if g is None:
                continue
            for b, t in g.calls():
                ck = callee_key(t) or ""
                if "Index" in ck and ck.endswith("::index"):
                    recv = full(arg_expr(g, t, 0))
                    idx = arg_expr(g, t, 1)
                    if tbl in recv and _is_param(idx):
                        idx_ok = True
            # native slice indexing: (*table)[_i].quantity with _i the closure parameter
            for i, j, s in g.iter_stmts():
                for p in _places_of(s):
                    for n, el in enumerate(p["p"]):
                        m = re.fullmatch(r"\[_(\d+)\]", el)
                        if not m:
                            continue
                        base = resolve_place(g, {"l": p["l"], "p": p["p"][:n]})
                        idx = resolve_place(g, {"l": int(m.group(1)), "p": []})
                        if tbl in full(base) and _is_param(idx) and fld in p["p"][n + 1:]:
                            idx_ok = True
        chk.expect(own and refs and flat and idx_ok, "C10.D4-lineage", fname.split("::", 2)[-1], f"{f.file}:{f.line}",
                   f"{fname.split('::')[-1]} must chain the component's own quantity with the quantities of its referenced_from indices in the passed slice "
                   f"(own={own}, references={refs}, chain+flatten={flat}, indexes `{tbl}` by the index={idx_ok})",
                   sample=f"{f.file}:{f.line}: once(self.quantity) ⧺ referenced_from().map(|i| {tbl}[i].quantity)")
    # group_quantities / group_amounts add every element
    for fname, adder, src in (("cooklang::model::Ingredient::group_quantities", "GroupedQuantity::add", "all_quantities"),
                              ("cooklang::model::Cookware::group_amounts", "GroupedValue::add", "all_amounts")):
        f = F.funcs.get(fname)
        if f is None:
            chk.fail("anchor-missing", fname, "", f"anchor-missing: {fname} not found")
            continue
        adds = [b for b, t in calls_to(f, adder)]
        srcs = calls_to(f, src)
        ok = bool(adds) and bool(srcs) and all(in_loop(f, a) for a in adds)
        if ok:
            for scc in f.sccs():
                if adds[0] in scc:
                    ok, _ = acyclic_without(f, scc, set(adds))
            # what is added is the loop element
            b0 = adds[0]
            t0 = f.blocks[b0]["term"]
            ok = ok and any(l.endswith("Iterator>::next") or l.endswith("Iterator::next") for l in arg_leaves(f, t0, 1))
        chk.expect(ok, "C10.D4-lineage", fname.split("::", 2)[-1], f"{f.file}:{f.line}",
                   f"{fname.split('::')[-1]} no longer adds every element of {src}() to the group",
                   sample=f"{f.file}:{f.line}: for q in {src}(..) {{ add(q) }}")
    # group_ingredients / group_cookware: definitions only, each pushed
    for fname in ("group_ingredients", "group_cookware"):
        fs = [f for f in F.funcs.values() if f.key.endswith("::" + fname) and "ingredient_list" in f.key and not f.is_closure()]
        if len(fs) != 1:
            chk.fail("anchor-missing", fname, "", f"anchor-missing: {fname} not found")
            continue
        f = fs[0]
        pushes = [b for b, t in calls_to(f, "Vec::push")]
        isdef = calls_to(f, "is_definition")
        ok = len(pushes) == 1 and len(isdef) == 1
        if ok:
            te, fe = call_result_edges(f, isdef[0][0])
            ok = any(f.edge_dominates(e, pushes[0]) for e in te) and not any(f.edge_dominates(e, pushes[0]) for e in fe)
            # the non-definition outcome continues the loop without pushing: trivially true if dominated by te
        if not ok and not pushes:
            # iterator form: the returned collection is collect(..filter(|x| x.relation.is_definition())..) over the component table
            import c09
            from flow import walk as _walk
            try:
                re_ = c09.return_expr(f)
            except Exception:
                re_ = None
            if re_ is not None and re_[0] == "call" and re_[1].endswith("Iterator::collect"):
                filt = [n for n in _walk(re_) if n[0] == "call" and n[1].endswith("Iterator::filter")]
                okf = False
                for n in filt:
                    cl = [m for a in n[2] for m in _walk(a) if m[0] == "agg" and m[1] == "closure"]
                    for m in cl:
                        g = F.funcs.get(m[2])
                        if g is None:
                            continue
                        ge = c09.return_expr(g)
                        # the predicate IS is_definition(..) (not its negation, no other condition)
                        if ge[0] == "call" and ge[1].endswith("is_definition"):
                            okf = True
                others = [n[1].rsplit("::", 1)[-1] for n in _walk(re_) if n[0] == "call" and n[1].rsplit("::", 1)[-1] in
                          ("skip", "take", "step_by", "rev", "skip_while", "take_while", "filter_map", "dedup", "chain")]
                ok = okf and len(filt) == 1 and not others
        chk.expect(ok, "C10.D4-lineage", fname, f"{f.file}:{f.line}",
                   f"{fname} must list exactly the components whose relation is a definition (push under is_definition() == true)",
                   sample=f"{f.file}:{f.line}: push under relation.is_definition()")
    f = F.funcs.get("cooklang::ingredient_list::IngredientList::add_recipe")
    if f is None:
        chk.fail("anchor-missing", "add_recipe", "", "anchor-missing: IngredientList::add_recipe not found")
        return
    addi = calls_to(f, "IngredientList::add_ingredient")
    listed = calls_to(f, "should_be_listed")
    ok = len(addi) == 1 and len(listed) == 1
    if ok:
        te, fe = call_result_edges(f, listed[0][0])
        ok = any(f.edge_dominates(e, addi[0][0]) for e in te)
    chk.expect(ok, "C10.D4-lineage", "add_recipe|listed", f"{f.file}:{f.line}",
               "add_recipe must add exactly the ingredients whose modifiers say should_be_listed()",
               sample=f"{f.file}:{f.line}: add_ingredient under modifiers().should_be_listed()")
    if addi:
        b, t = addi[0]
        name_l = arg_leaves(f, t, 1)
        q_txt = full(arg_expr(f, t, 2))
        chk.expect(any(l.endswith("display_name") for l in name_l), "C10.D4-lineage", "add_recipe|key", f.where(b),
                   f"add_recipe keys the list by {arg_text(f, t, 1)[:80]} instead of display_name()", sample=f"{f.where(b)}: key = ingredient.display_name()")
        chk.expect("quantity" in q_txt and "group_ingredients" in q_txt, "C10.D4-lineage", "add_recipe|quantity", f.where(b),
                   f"add_recipe adds {q_txt[:100]} instead of the grouped quantity of the entry", sample=f"{f.where(b)}: adds entry.quantity from group_ingredients()")
    f = F.funcs.get("cooklang::ingredient_list::IngredientList::add_ingredient")
    if f is not None:
        m = calls_to(f, "GroupedQuantity::merge")
        chk.expect(len(m) == 1 and "param:quantity" in arg_leaves(f, m[0][1], 1), "C10.D4-lineage", "add_ingredient|merge", f"{f.file}:{f.line}",
                   "add_ingredient must merge the passed quantity into the entry of that name", sample=f"{f.file}:{f.line}: entry(name).or_default().merge(quantity)")
