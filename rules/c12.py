"""C12 — fraction approximation never misstates a value (partial).

Decided clauses:
  D1  writer/reader agreement: for every Number::Fraction built by new_approx, substituting its
      fields into Number::value's formula gives back the input value as a rational function;
  D2  limits dominate results: every Some(Fraction{..}) is dominated by value > 0 ∧ finite, by
      whole <= max_whole, and by |err| within accuracy·value; the fractional part comes from the
      lookup bounded by max_den; Regular is returned only for (near-)integers;
  D3  callers pass clamped limits (FractionsConfigHelper::define).
Not decided: nearest-fraction choice, tie-breaking, table contents, any numerical result."""
from __future__ import annotations

import harness
import ratfun
from ratfun import Rat, Poly
from facts import Facts, callee_key, norm, region_of
from flow import resolve, resolve_place, resolve_rvalue, leaves, show, walk
from cfgq import calls_to, aggregates, bool_edges, call_result_edges, arg_expr

NA = "cooklang::quantity::Number::new_approx"


def full(e):
    import flow
    return flow.show(e, -50)


def strip_casts(e):
    while isinstance(e, tuple) and e and e[0] == "cast":
        e = e[2]
    return e


def leafname_factory():
    """Name non-arithmetic sub-expressions by their rendering (int<->float casts are looked through)."""
    def leafname(e):
        t = e[0]
        if t in ("bin", "cast", "un", "ref"):
            return None
        if t == "const" and any(k in e[1] for k in ("f64", "int")):
            return None
        if t == "const" and "bits" in e[1] and e[1].get("ty") in ("u8", "u16", "u32", "u64", "usize", "i32", "f64"):
            return None
        if t == "place" and all(p == "*" for p in e[2]):
            return None
        return full(e)
    return leafname


def comparisons(f):
    out = []
    for i, j, s in f.iter_stmts():
        rv = s.get("rv", {})
        if rv.get("k") == "bin" and rv["op"] in ("Lt", "Le", "Gt", "Ge"):
            l, r = resolve(f, rv["l"]), resolve(f, rv["r"])
            out.append((i, s["place"]["l"], rv["op"], l, r))
    return out


def within_edges(f, cmp, small_txt, big_txt, strict_ok=True):
    """Edges on which `small <= big` (or <) is known to hold, for a comparison between the two texts."""
    i, dest, op, l, r = cmp
    lt, rt = full(strip_casts(l)), full(strip_casts(r))
    te, fe = bool_edges(f, dest)
    if lt == small_txt and rt == big_txt:
        if op in ("Lt", "Le"):
            return te
        if op in ("Gt", "Ge"):
            return fe
    if lt == big_txt and rt == small_txt:
        if op in ("Gt", "Ge"):
            return te
        if op in ("Lt", "Le"):
            return fe
    return []


def within_when_true(cmp, small_txt, big_txt):
    """does the comparison's value `true` mean small <= big (or <)?"""
    i, dest, op, l, r = cmp
    lt, rt = full(strip_casts(l)), full(strip_casts(r))
    return (lt == small_txt and rt == big_txt and op in ("Lt", "Le")) or (lt == big_txt and rt == small_txt and op in ("Gt", "Ge"))


def effective_sites(f, i, st):
    """Where must the guards of a constructed Number hold?  Normally at the construction (block i).  With the eager idiom
    `cond.then_some(Number::Fraction{..})` the value is built unconditionally and only RETURNED when `cond` is true: the guards
    must then hold where `cond` receives a value that can be true — and the last conjunct of `a && b && c` is not a branch at
    all, it is the value stored into `cond` (returned as `finals`)."""
    A = st["place"]["l"]
    aliases = {A}
    for _ in range(3):
        for bi, bj, s2 in f.iter_stmts():
            if s2["k"] == "assign" and not s2["place"]["p"] and s2["rv"]["k"] == "use":
                q = s2["rv"]["op"].get("move") or s2["rv"]["op"].get("copy")
                if q is not None and not q["p"] and q["l"] in aliases:
                    aliases.add(s2["place"]["l"])
    for b, t in f.calls():
        if (callee_key(t) or "").endswith(("bool::then_some", "<impl bool>::then_some")) and len(t.get("args", [])) == 2:
            q = t["args"][1].get("move") or t["args"][1].get("copy")
            if q is None or q["p"] or q["l"] not in aliases:
                continue
            c = t["args"][0].get("move") or t["args"][0].get("copy")
            if c is None or c["p"]:
                continue
            sites, finals = [], set()
            work, seen = [c["l"]], set()
            while work:
                l = work.pop()
                if l in seen:
                    continue
                seen.add(l)
                for d0 in f.defs.get(l, []):
                    if d0[0] != "stmt":
                        continue
                    rv = d0[3]["rv"]
                    if rv["k"] == "use":
                        cst = rv["op"].get("const")
                        if cst is not None:
                            if cst.get("bits") == "1":
                                sites.append(d0[1])
                            continue                      # `false`: the value is not returned on this path
                        q2 = rv["op"].get("move") or rv["op"].get("copy")
                        if q2 is not None and not q2["p"]:
                            nd = f.defs.get(q2["l"], [])
                            if len(nd) == 1 and nd[0][0] == "stmt" and nd[0][3]["rv"]["k"] == "bin":
                                sites.append(d0[1])
                                finals.add(q2["l"])
                            else:
                                work.append(q2["l"])
                    elif rv["k"] == "bin":
                        sites.append(d0[1])
                        finals.add(l)
            if sites:
                return sites, finals
    return [i], set()


def run(chk: harness.Check):
    paths, th = harness.mir_facts("Q")
    F = Facts(paths)
    chk.explanation = (
        "On the MIR of Number::new_approx and Number::value: (D1) each Number::Fraction aggregate's fields (whole, num, den, err) are substituted "
        "into the expression returned by Number::value and the result is compared with the input `value` as a rational function (exact symbolic "
        "identity, integer/float casts looked through); (D2) each Fraction aggregate is edge-dominated by the positive/finite test, by a comparison "
        "that puts its `whole` at or below `max_whole`, and by a comparison that puts |err| within accuracy·value; num/den come from "
        "FractionLookupTable::lookup(.., max_den); Regular is returned only under the fract() < 1e-10 test; (D3) FractionsConfigHelper::define clamps accuracy to "
        "[0,1] and max_denominator to [1,16]; (D4) the format templates of <Number as Display>::fmt over the Fraction fields, decoded from MIR, are `{whole}`, "
        "`{num}/{den}` or `{whole} {num}/{den}`, and a component is omitted only on the zero arm of a switch on it; (D5) the lookup table enumerates "
        "numerators over 1..den and keys entries by num/den; (D6) Number::try_approx approximates self.value(), and any function computing a fraction's num/den in floating point also reads its err. Shape and dominance only: no value is computed.")
    chk.trusted = ["rustc MIR; f64 arithmetic treated as exact rational arithmetic for the identity (rounding error is not modelled)",
                   "u32/u8 <-> f64 casts treated as identity"]
    f = F.funcs.get(NA)
    v = F.funcs.get("cooklang::quantity::Number::value")
    if f is None or v is None:
        chk.fail("anchor-missing", NA, "", "anchor-missing: Number::new_approx / Number::value not found")
        return
    chk.analysed = {"facts": th}
    aggs = [(i, s, d) for ff, i, s, d in aggregates(F, NA, "quantity::Number") if ff is f]
    fracs = [(i, s, d) for i, s, d in aggs if s["rv"]["variant"] == "Fraction"]
    regs = [(i, s, d) for i, s, d in aggs if s["rv"]["variant"] == "Regular"]
    chk.floor("C12.D1-agreement", "Fraction constructions in new_approx", len(fracs), 2, f"{f.file}:{f.line}")

    # ---- D1 -----------------------------------------------------------------------------------
    vexpr = resolve_place(v, {"l": 0, "p": []})
    # the Fraction arm of value(): the phi alternative that mentions the fraction fields
    alts = list(vexpr[1]) if vexpr[0] == "phi" else [vexpr]
    farm = [a for a in alts if "as Fraction" in full(a)]
    if len(farm) != 1:
        chk.fail("anchor-missing", "Number::value fraction arm", f"{v.file}:{v.line}", "anchor-missing: cannot isolate the Fraction arm of Number::value")
        return
    farm = farm[0]

    def reader_leaf(e):
        if e[0] == "place":
            flds = [p for p in e[2] if p.startswith(".")]
            if flds and any("as Fraction" in p for p in e[2]):
                return "F" + flds[-1]
        return None
    try:
        reader = ratfun.from_expr(farm, reader_leaf)
    except ValueError as ex:
        chk.fail("C12.D1-agreement", "Number::value", f"{v.file}:{v.line}", f"Number::value is not a rational expression of the fraction fields: {ex} ({full(farm)[:120]})")
        return
    ln = leafname_factory()
    for i, s, d in fracs:
        where = f"{f.file}:{s.get('line')}"
        try:
            sub = {"F." + k: ratfun.from_expr(resolve(f, op), ln) for k, op in d.items()}
        except ValueError as ex:
            chk.fail("C12.D1-agreement", f"new_approx|fraction@{_tag(f, d)}", where, f"a Fraction field is not arithmetic: {ex}")
            continue
        composed = substitute(reader, sub)
        want = Rat(Poly.var("value"))
        ok = composed.same(want)
        chk.expect(ok, "C12.D1-agreement", f"new_approx|fraction@{_tag(f, d)}", where,
                   f"Number::value() applied to this Fraction does not give back the approximated input: value() = {full(farm)[:100]} with "
                   f"err = {full(resolve(f, d['err']))[:120]}",
                   sample=f"{where}: whole + err + num/den ≡ value (rational-function identity)")

    # ---- D2 -----------------------------------------------------------------------------------
    cmps = comparisons(f)
    for i, s, d in fracs:
        where = f"{f.file}:{s.get('line')}"
        tag = _tag(f, d)
        sites, finals = effective_sites(f, i, s)
        def dom(edges):
            return all(any(f.edge_dominates(e, site) for e in edges) for site in sites)
        whole_txt = full(strip_casts(resolve(f, d["whole"])))
        ok = any(dom(within_edges(f, c, whole_txt, "max_whole")) or (c[1] in finals and within_when_true(c, whole_txt, "max_whole")) for c in cmps)
        chk.expect(ok, "C12.D2-limits", f"new_approx|{tag}|whole<=max_whole", where,
                   f"a Fraction with whole part `{whole_txt[:60]}` is returned on a path where it was not compared against max_whole",
                   sample=f"{where}: whole `{whole_txt[:40]}` ≤ max_whole dominates")
        err_txt = full(resolve(f, d["err"]))
        abs_txt = None
        okerr = False
        for c in cmps:
            i_, dest, op, l, r = c
            for side, other in ((l, r), (r, l)):
                st = strip_casts(side)
                if st[0] == "call" and st[1].endswith("f64>::abs") and full(st[2][0]) == err_txt:
                    ot = full(other)
                    if "accuracy" in ot and "value" in ot and "Mul" in ot:
                        es = within_edges(f, c, full(st), full(strip_casts(other)))
                        if dom(es) or (c[1] in finals and within_when_true(c, full(st), full(strip_casts(other)))):
                            okerr = True
        chk.expect(okerr, "C12.D2-limits", f"new_approx|{tag}|err<=accuracy*value", where,
                   "a Fraction is returned on a path where |err| was not compared against accuracy · value",
                   sample=f"{where}: |err| within accuracy·value dominates")
        # positive & finite
        pos = [c for c in cmps if full(c[3]) == "value" and full(c[4]) in ("0.0", "0")]
        okpos = any(dom(bool_edges(f, c[1])[1] if c[2] in ("Le", "Lt") else bool_edges(f, c[1])[0]) for c in pos)
        fin = calls_to(f, "f64>::is_finite")
        okfin = any(dom(call_result_edges(f, b)[0]) for b, t in fin)
        chk.expect(okpos and okfin, "C12.D2-limits", f"new_approx|{tag}|positive-finite", where,
                   f"a Fraction is returned without excluding non-positive (ok={okpos}) or non-finite (ok={okfin}) input",
                   sample=f"{where}: value > 0 and is_finite() dominate")
        # fractional part from the bounded lookup
        num_txt = full(resolve(f, d["num"]))
        if num_txt not in ("0",):
            ok = "FractionLookupTable::lookup" in num_txt and "max_den" in num_txt and "fract" in num_txt
            chk.expect(ok, "C12.D2-limits", f"new_approx|{tag}|lookup", where,
                       f"numerator/denominator do not come from lookup(fract(value), max_den): {num_txt[:100]}", sample=f"{where}: num/den from lookup(value.fract(), max_den)")
    # float -> u32 casts saturate: a whole part taken from such a cast must have the saturation value excluded
    sat = []
    for ci, cj, cs in f.iter_stmts():
        rv = cs.get("rv", {})
        if rv.get("k") == "bin" and rv["op"] == "Eq":
            l, r = resolve(f, rv["l"]), resolve(f, rv["r"])
            for a, b_ in ((l, r), (r, l)):
                bt = full(b_)
                if a[0] == "cast" and a[1].startswith("FloatToInt") and ("u32>::MAX" in bt or bt == "4294967295"):
                    sat.append((cs["place"]["l"], full(strip_casts(a))))
    for i, s, d in fracs + regs:
        where = f"{f.file}:{s.get('line')}"
        ok = any(any(f.edge_dominates(e, i) for e in bool_edges(f, dest)[1]) for dest, _ in sat)
        chk.expect(ok, "C12.D2-limits", f"new_approx|{s['rv']['variant']}@{_tag(f, d) if s['rv']['variant'] == 'Fraction' else 'regular'}|no saturation", where,
                   "a number is returned on a path where the saturating f64 -> u32 cast of the whole part was not excluded (whole == u32::MAX): "
                   "values of 2^32 and above would be reported with a whole part of 4294967295",
                   sample=f"{where}: dominated by `whole != u32::MAX`")
    for i, s, d in regs:
        where = f"{f.file}:{s.get('line')}"
        small = [c for c in cmps if "fract" in full(c[3]) and c[2] in ("Lt", "Le")]
        ok = any(any(f.edge_dominates(e, i) for e in bool_edges(f, c[1])[0]) for c in small)
        chk.expect(ok, "C12.D2-limits", "new_approx|regular", where, "Number::Regular is returned for a value whose fractional part was not tested to be negligible",
                   sample=f"{where}: Regular only under fract() < 1e-10")
        okw = any(any(f.edge_dominates(e, i) for e in within_edges(f, c, "<impl f64>::trunc(value)", "max_whole")) for c in cmps)
        chk.expect(okw, "C12.D2-limits", "new_approx|regular|whole<=max_whole", where, "Number::Regular is returned without the max_whole test",
                   sample=f"{where}: trunc(value) ≤ max_whole dominates")
    # lookup honours max_den: every returned entry passed `d <= max_den`
    lk = F.funcs.get("cooklang::quantity::FractionLookupTable::lookup")
    if lk is None:
        chk.fail("anchor-missing", "lookup", "", "anchor-missing: FractionLookupTable::lookup not found")
    else:
        # count the PLACES where a candidate is filtered: a comparison written in lookup's own body counts once, a predicate
        # closure counts once per use (call argument of find / rfind / is_ok_and / a direct call), so one shared
        # `allowed` closure used three times is the same as three inline predicates
        def has_cmp(g):
            return any("max_den" in full(c[4]) or "max_den" in full(c[3]) for c in comparisons(g))
        n = sum(1 for c in comparisons(lk) if "max_den" in full(c[4]) or "max_den" in full(c[3]))
        preds = {g.key for g in F.region_funcs(lk.key) if g.is_closure() and has_cmp(g)}
        for g in F.region_funcs(lk.key):
            for b, t in g.calls():
                used = set()
                for a in t.get("args", []):
                    x = resolve(g, a)
                    while x[0] == "ref":
                        x = x[1]
                    # the closure handed to THIS call (not one buried in the lineage of its receiver)
                    if x[0] == "agg" and x[1] == "closure" and x[2] in preds:
                        used.add(x[2])
                n += len(used)
        chk.expect(n >= 3, "C12.D2-limits", "lookup|max_den filters", f"{lk.file}:{lk.line}",
                   f"FractionLookupTable::lookup compares candidates against max_den in {n} place(s), expected the exact-hit test and both neighbour searches (3)",
                   sample=f"{lk.file}:{lk.line}: {n} comparisons against max_den")
    d4_display(chk, F)
    d5_table(chk, F)
    d6_err_carried(chk, F)
    # ---- D3 -----------------------------------------------------------------------------------
    df = F.funcs.get("cooklang::convert::units_file::FractionsConfigHelper::define")
    if df is None:
        chk.fail("anchor-missing", "define", "", "anchor-missing: FractionsConfigHelper::define not found")
        return
    for ff, i, s, d in aggregates(F, df.key, "convert::FractionsConfig"):
        acc = resolve(ff, d["accuracy"])
        den = resolve(ff, d["max_denominator"])
        oka = acc[0] == "call" and acc[1].endswith("clamp") and [full(x) for x in acc[2][1:]] == ["0.0", "1.0"]
        okd = den[0] == "call" and den[1].endswith("clamp") and [full(x) for x in den[2][1:]] == ["1", "16"]
        chk.expect(oka, "C12.D3-clamp", "define|accuracy", f"{ff.file}:{s.get('line')}",
                   f"accuracy is not clamped to [0, 1] before it reaches new_approx's assertion: {full(acc)[:80]}", sample="accuracy.clamp(0.0, 1.0)")
        chk.expect(okd, "C12.D3-clamp", "define|max_denominator", f"{ff.file}:{s.get('line')}",
                   f"max_denominator is not clamped to [1, 16] (new_approx asserts <= 64): {full(den)[:80]}", sample="max_denominator.clamp(1, 16)")


def d6_err_carried(chk, F):
    """'whose exact value (fraction plus recorded error) equals the input': the exact value of a Number is Number::value().
    (a) Number::try_approx approximates `self.value()`, not a value rebuilt from the fraction components; (b) any library function
    that computes `num / den` of a Number::Fraction in floating point also reads its `err` (today only Number::value does)."""
    R = "C12.D6-err-carried"

    def fraction_fields(e):
        return {p for x in walk(e) if x[0] == "place" and any(isinstance(q, str) and q == "as Fraction" for q in x[2]) for p in x[2] if isinstance(p, str) and p.startswith(".")}
    ta = [g for g in F.find("quantity::Number::try_approx") if not g.is_closure()]
    if len(ta) != 1:
        chk.fail("anchor-missing", "Number::try_approx", "", "anchor-missing: Number::try_approx not found")
        return
    g = ta[0]
    n = 0
    for rf in F.region_funcs(g.key):
        for b, t in rf.calls():
            if (callee_key(t) or "").endswith("quantity::Number::new_approx"):
                n += 1
                e = resolve(rf, t["args"][0])
                ok = e[0] == "call" and e[1].endswith("quantity::Number::value") and any(l.startswith(("param:self", "upvar:self")) for l in leaves(e))
                # value() written out in place is the same input as long as all four components are in it
                ok = ok or {".whole", ".num", ".den", ".err"} <= fraction_fields(e)
                chk.expect(ok, R, "try_approx|input", rf.where(b),
                           f"try_approx approximates {show(e, -60)[:120]} instead of self.value(): the recorded error of a fraction that is approximated again "
                           "is dropped and the result misstates the value", sample=f"{rf.where(b)}: new_approx(self.value(), ..)")
    chk.floor(R, "new_approx calls in try_approx", n, 1, f"{g.file}:{g.line}")

    m = 0
    for k in sorted(F.funcs):
        h = F.funcs[k]
        if h.crate not in ("cooklang", "cooklang_bindings") or h.generated:
            continue
        divs = []
        for i, j, st in h.iter_stmts():
            rv = st.get("rv", {})
            if st["k"] == "assign" and rv.get("k") == "bin" and rv.get("op") == "Div" and rv.get("lty") in ("f64", "f32"):
                if ".num" in fraction_fields(resolve(h, rv["l"])) and ".den" in fraction_fields(resolve(h, rv["r"])):
                    divs.append(st)
        if not divs:
            continue
        m += 1
        reads_err = any(".err" in p.get("p", []) and "as Fraction" in p.get("p", []) for i, j, st in h.iter_stmts() if st["k"] == "assign"
                        for p in _operand_places(st))
        chk.expect(reads_err, R, f"{region_of(k)}|num/den", f"{h.file}:{divs[0].get('line')}",
                   f"{k.rsplit('::', 2)[-2]}::{k.rsplit('::', 1)[-1]} computes a fraction's num / den as a float without reading its recorded `err`: the exact value of a "
                   "Number::Fraction is whole + err + num/den", sample=f"{h.file}:{divs[0].get('line')}: num/den together with err")
    chk.floor(R, "functions computing num/den in floating point", m, 1)


def _operand_places(st):
    rv = st.get("rv", {})
    for key in ("op", "l", "r", "x"):
        o = rv.get(key)
        if isinstance(o, dict):
            p = o.get("copy") or o.get("move")
            if p:
                yield p
    if isinstance(rv.get("place"), dict):
        yield rv["place"]
    for o in rv.get("ops", []) or []:
        p = o.get("copy") or o.get("move")
        if p:
            yield p


def d4_display(chk, F):
    """The printed form `w n/d` denotes exactly the stored fraction: in <Number as Display>::fmt every format template over
    the Fraction fields is one of `{whole}`, `{num}/{den}`, `{whole} {num}/{den}` (decoded from MIR), and a component is
    left out only on the zero outcome of a switch on that very component."""
    import fmtq
    f = F.funcs.get("cooklang::<quantity::Number as std::fmt::Display>::fmt")
    if f is None:
        chk.fail("anchor-missing", "Number::fmt", "", "anchor-missing: <Number as Display>::fmt not found")
        return
    def fld(e):
        t = full(e)
        for k in ("whole", "num", "den", "err"):
            if t.endswith("as Fraction." + k):
                return k
        return None
    zero = {}      # field -> [edge taken when the field is 0]
    for b, t in f.iter_terms("switch"):
        k = fld(resolve(f, t["discr"]))
        if k:
            for val, tgt in t["targets"]:
                if val == "0":
                    zero.setdefault(k, []).append((b, tgt))
    # the same test kept in a bool: `let has_whole = whole != 0;`
    for i, j, st in f.iter_stmts():
        rv = st.get("rv", {})
        if st["k"] == "assign" and rv.get("k") == "bin" and rv["op"] in ("Ne", "Eq", "Gt") and (rv["r"].get("const") or {}).get("bits") == "0" and not st["place"]["p"]:
            k = fld(resolve(f, rv["l"]))
            if k:
                te, fe = bool_edges(f, st["place"]["l"])
                zero.setdefault(k, []).extend(te if rv["op"] == "Eq" else fe)
    sites = []
    for st in fmtq.format_sites(f):
        ks = [fld(tk[1]) for tk in st["tokens"] if tk[0] == "arg"]
        if ks and all(k in ("whole", "num", "den") for k in ks):
            sites.append((st, fmtq.render(st["tokens"], lambda e: fld(e) or "?")))
    chk.floor("C12.D4-display", "fraction templates in Number::fmt", len(sites), 3, f"{f.file}:{f.line}")
    allowed = {"{whole}": ("num",), "{num}/{den}": ("whole",), "{whole} {num}/{den}": ()}
    seen = set()
    for st, form in sites:
        where = f"{f.file}:{st['line']}"
        if form not in allowed:
            chk.fail("C12.D4-display", f"fmt|template {form}", where, f"Number::fmt prints a fraction as `{form}`, which does not denote whole + num/den")
            continue
        seen.add(form)
        ok = all(any(f.edge_dominates(e, st["block"]) for e in zero.get(k, [])) for k in allowed[form])
        if not ok:
            # the zero test may be a bool tested more than once (`if a && b {..} else if a {..}`): no branch-consistent path
            # reaches the site without passing a zero edge of every omitted component
            from cfgq import consistent_path_exists
            ok = all(zero.get(k) and not consistent_path_exists(f, 0, st["block"], zero[k]) for k in allowed[form])
        chk.expect(ok, "C12.D4-display", f"fmt|{form}", where,
                   f"the form `{form}` leaves out {allowed[form]} on a path where that component was not tested to be 0",
                   sample=f"{where}: `{form}`" + (f" only when {allowed[form][0]} == 0" if allowed[form] else ""))
    chk.expect("{whole} {num}/{den}" in seen, "C12.D4-display", "fmt|mixed form", f"{f.file}:{f.line}",
               "Number::fmt no longer has the mixed form `{whole} {num}/{den}`", sample="mixed form present")


def d5_table(chk, F):
    """Supported fractions: FractionLookupTable::new enumerates num over the half-open range 1..den (a smaller positive
    numerator) for each den of DENOMS, keys each entry by num/den, and stores the pair as (num, den)."""
    g = F.funcs.get("cooklang::quantity::FractionLookupTable::new")
    if g is None:
        chk.fail("anchor-missing", "FractionLookupTable::new", "", "anchor-missing: FractionLookupTable::new not found")
        return
    ins = [(b, t) for b, t in g.calls() if (callee_key(t) or "").endswith("Vec::<T, A>::insert")]
    chk.floor("C12.D5-table", "table inserts", len(ins), 1, f"{g.file}:{g.line}")
    for b, t in ins:
        e = resolve(g, t["args"][2])
        txt = full(e)
        where = g.where(b)
        # (fixed, (num, den)) with fixed = ((num as f64 / den as f64) * FIX_RATIO) as i16
        ok = e[0] == "agg" and e[1] == "tuple"
        key = pair = None
        if ok:
            parts = dict(e[4])
            key, pair = parts.get("0"), parts.get("1")
            ok = key is not None and pair is not None and pair[0] == "agg" and pair[1] == "tuple"
        if ok:
            pp = dict(pair[4])
            ntxt, dtxt = full(pp["0"]), full(pp["1"])
            ktxt = full(key)
            rng = [n for n in walk(pp["0"]) if n[0] == "agg" and n[1] == "adt" and n[2].endswith("ops::Range")]
            half_open = bool(rng)
            start_one = any(full(dict(r[4]).get("start", ("?",))) == "1" for r in rng)
            end_den = any(full(dict(r[4]).get("end", ("?",))) in dtxt or dtxt in full(dict(r[4]).get("end", ("?",))) for r in rng)
            incl = any(n[0] == "call" and "RangeInclusive" in n[1] for n in walk(pp["0"]))
            chk.expect(half_open and start_one and end_den and not incl, "C12.D5-table", "new|numerators", where,
                       f"numerators must run over 1..den (positive and smaller than the denominator); the stored numerator is {ntxt[:100]}",
                       sample=f"{where}: num ∈ 1..den")
            okk = " Div " in ktxt and " Mul " in ktxt and ktxt.index(" Div ") < ktxt.index(" Mul ") if " Div " in ktxt and " Mul " in ktxt else False
            chk.expect(okk and "DENOMS" in dtxt or okk, "C12.D5-table", "new|key", where,
                       f"the lookup key must be (num / den) scaled by FIX_RATIO; it is {ktxt[:120]}", sample=f"{where}: key = (num/den)·FIX_RATIO")
        else:
            chk.fail("C12.D5-table", "new|entry shape", where, f"table entries must be (key, (num, den)); inserted value is {txt[:100]}")


def _tag(f, d):
    n = full(resolve(f, d["num"]))
    return "rounded" if n == "0" else "table"


def substitute(r: Rat, sub):
    """Substitute variables of a rational function by rational functions."""
    def poly(p: Poly):
        out = Rat(Poly.const(0))
        for mon, coeff in p.t.items():
            term = Rat(Poly.const(coeff))
            for name, power in mon:
                base = sub.get(name, Rat(Poly.var(name)))
                for _ in range(power):
                    term = term * base
            out = out + term
        return out
    return poly(r.n) / poly(r.d)
