"""C08 — scaling multiplies exactly the scalable amounts and nothing else.

Decided clauses:
  D1  who may be Linear: ScalableValue::Linear is built in one place, under
      is_ingredient ∧ ¬is_text ∧ ¬scaling-lock, and is_ingredient is the constant `true` only on
      the path from ingredient();
  D2  Fixed is the identity: <ScalableValue as Scale>::scale returns the untouched payload for
      Fixed (outcome Fixed) and for a failed Linear (outcome Error), linear_scale's result for
      Scaled; default_scale returns the payload in both arms;
  D3  formula shape: linear_scale multiplies number, range start and range end by the factor;
      scale_to_servings uses target / first declared servings (or 1);
  D4  identity lineage: metadata, sections, inline quantities and every component field other
      than `quantity` are moves of the same-named input field; outcome vectors line up with
      their component vectors; cookware is never fitted;
  D5  (servings base) the declared servings list keeps its order (shared with C13.D3).
Not decided: fitting to another unit preserves the amount (C09/C12 clauses), finiteness."""
from __future__ import annotations

import re

import harness
from facts import Facts, callee_key, norm, operand_local, region_of
from flow import resolve, resolve_place, resolve_rvalue, leaves, show, walk
from cfgq import calls_to, region_calls_to, arg_expr, arg_leaves, aggregates, bool_edges, call_result_edges
import c13

S = "cooklang::scale::<impl model::Recipe<scale::Servings, quantity::ScalableValue>>::"
R = "cooklang::analysis::event_consumer::RecipeCollector::"


def full(e):
    import flow
    return flow.show(e, -50)


def alts(e):
    return list(e[1]) if e[0] == "phi" else [e]


def run(chk: harness.Check):
    paths, th = harness.mir_facts("Q")
    F = Facts(paths)
    chk.explanation = (
        "Lineage and shape rules on MIR: (D1) the only construction of ScalableValue::Linear is in RecipeCollector::value, edge-dominated by "
        "is_ingredient, !is_text and !has_scaling_lock, and the is_ingredient argument is the literal true only at the call reached from ingredient() "
        "(false from cookware()/timer()); (D2) the value returned by <ScalableValue as Scale>::scale is, per outcome, the Fixed payload itself, "
        "linear_scale(payload, target.factor()) or the Linear payload itself; default_scale returns the payload; (D3) linear_scale builds "
        "Number(value·factor) and Range{start·factor, end·factor}; scale_to_servings passes target/base with base = first declared servings or 1; "
        "(D4) every field of the scaled recipe and of each scaled component other than the quantity is a move of the same-named input field, "
        "ScaledData.{ingredients,cookware,timers} are the outcome halves of the unzip over the same-named vectors, the cookware chain contains no "
        "call to Quantity::fit; (D5) the servings list is not reordered; (D6) the outcome paired with a scaled component is the one its own Scale::scale returned, passed through the post-scale fit untouched; (D7) no default_scale reaches Scale::scale or linear_scale. No number is computed.")
    chk.trusted = ["rustc MIR", "Iterator::map/unzip preserve order and length"]
    chk.analysed = {"facts": th}
    d1_linear(chk, F)
    d2_identity(chk, F)
    d3_formula(chk, F)
    d4_lineage(chk, F)
    d6_outcome_origin(chk, F)
    d7_default_no_multiply(chk, F)
    c13.d3_servings(chk, F)
    # scaling fits the scaled quantity (scale.rs → Quantity::fit → fit_fraction): "multiplied by f as a physical amount
    # (whatever unit it is then fitted to)" needs both ends of a re-expressed range converted to the new unit
    import c09
    sub = harness.Check("C09", chk.tier)
    c09.run(sub)
    harness.fold(chk, sub, lambda r: "C08.D5-fit." + r.split(".", 1)[1] if r.startswith("C09.") else r,
                 keep=lambda r: r in ("C09.D5-fit-range", "C09.D3-errors-before-mutation", "C09.D4-designated", "C09.D8-value-unit-together", "anchor-missing"))
    if chk.tier == "thorough":
        import thorough
        ok, n, out = thorough.witnesses()
        chk.expect(ok and n >= 9, "C08.D5-typestate", "doc-test witnesses", "witnesses/src/lib.rs",
                   f"typestate witnesses failed ({n} passed): {out}",
                   sample=f"{n} witnesses hold: ScaledRecipe has no scale/default_scale, ScalableRecipe has no convert, scaling consumes the recipe (each compile_fail paired with a compiling twin)")


def d1_linear(chk, F):
    sites = []
    for k, f in F.funcs.items():
        if f.generated or f.crate != "cooklang":
            continue
        for i, j, s in f.iter_stmts():
            rv = s.get("rv", {})
            if rv.get("k") == "agg" and rv.get("agg") == "adt" and norm(rv["adt"]).endswith("quantity::ScalableValue") and rv["variant"] == "Linear":
                sites.append((f, i, s))
    ok = len(sites) == 1 and sites[0][0].key == R + "value"
    chk.expect(ok, "C08.D1-linear", "Linear constructions", sites[0][0].where(sites[0][1]) if sites else "",
               f"ScalableValue::Linear must be constructed only in RecipeCollector::value; found in {[f.key for f, _, _ in sites]}",
               sample="Linear is built only in RecipeCollector::value")
    if not ok:
        return
    f, i, s = sites[0]
    where = f"{f.file}:{s.get('line')}"
    # is_ingredient: the bool parameter
    pidx = [l for l in range(1, f.argc + 1) if f.local_name(l) == "is_ingredient"]
    te, fe = bool_edges(f, pidx[0]) if pidx else ([], [])
    chk.expect(bool(te) and any(f.edge_dominates(e, i) for e in te), "C08.D1-linear", "value|is_ingredient", where,
               "Linear is built on a path where is_ingredient is not known to be true: cookware or timers would scale", sample=f"{where}: under is_ingredient")
    for callee, pol, what in (("QuantityValue>::is_text", "false", "text value"), ("Option::<T>::is_some", "false", "scaling lock")):
        cs = calls_to(f, callee)
        ok = False
        for b, t in cs:
            t_e, f_e = call_result_edges(f, b)
            for e in (f_e if pol == "false" else t_e):
                if f.edge_dominates(e, i):
                    ok = True
        chk.expect(ok, "C08.D1-linear", f"value|not {what}", where,
                   f"Linear is built on a path where the {what} case was not excluded", sample=f"{where}: under !{callee.split('::')[-1]}()")
    # constant-argument rule
    def const_bool(e):
        return e[1].get("bits") if e[0] == "const" and e[1].get("ty") == "bool" else None
    q = F.funcs.get(R + "quantity")
    if q is None:
        chk.fail("anchor-missing", R + "quantity", "", "anchor-missing: RecipeCollector::quantity not found")
        return
    for ff, b, t in region_calls_to(F, R + "quantity", "RecipeCollector::value"):
        e = arg_expr(ff, t, 2)
        chk.expect(e[0] == "param" and e[2] == "is_ingredient", "C08.D1-linear", "quantity forwards is_ingredient", ff.where(b),
                   f"RecipeCollector::quantity passes {full(e)} to value() instead of its own is_ingredient", sample="quantity(q, is_ingredient) → value(v, is_ingredient)")
    expect = {"ingredient": "1", "timer": "0", "cookware": "0"}
    seen = {}
    for name in expect:
        for ff, b, t in region_calls_to(F, R + name, "RecipeCollector::quantity") + region_calls_to(F, R + name, "RecipeCollector::value"):
            e = arg_expr(ff, t, 2)
            seen.setdefault(name, []).append((const_bool(e), ff.where(b)))
    for name, want in expect.items():
        vals = seen.get(name, [])
        ok = bool(vals) and all(v == want for v, _ in vals)
        chk.expect(ok, "C08.D1-linear", f"{name}()|is_ingredient={'true' if want == '1' else 'false'}", vals[0][1] if vals else "",
                   f"{name}() must build its quantity with is_ingredient = {'true' if want == '1' else 'false'}; it passes {[v for v, _ in vals]}",
                   sample=f"{name}(): is_ingredient = {'true' if want == '1' else 'false'}")
    # no other caller of value()/quantity() with a literal true
    for ff_, kind, b, t in F.callers_of(R + "value") + F.callers_of(R + "quantity"):
        if region_of(ff_.key) in (R + "ingredient", R + "quantity"):
            continue
        e = arg_expr(ff_, t, 2) if len(t.get("args", [])) > 2 else None
        if e is not None and const_bool(e) == "1":
            chk.fail("C08.D1-linear", f"{region_of(ff_.key)}|is_ingredient=true", ff_.where(b), f"{ff_.key} asks for a scalable (Linear) value although it is not the ingredient path")


def d2_identity(chk, F):
    f = F.funcs.get("cooklang::<quantity::ScalableValue as scale::Scale>::scale")
    g = F.funcs.get("cooklang::<quantity::ScalableValue as scale::Scale>::default_scale")
    if f is None or g is None:
        chk.fail("anchor-missing", "ScalableValue::scale", "", "anchor-missing: Scale impl of ScalableValue not found")
        return
    ret = resolve_place(f, {"l": 0, "p": []})
    seen = set()
    for a in alts(ret):
        if a[0] != "agg" or a[1] != "tuple":
            chk.fail("C08.D2-identity", "scale|shape", f"{f.file}:{f.line}", f"ScalableValue::scale returns {full(a)[:80]}, not a (value, outcome) pair")
            continue
        val, out = a[4][0][1], a[4][1][1]
        vt, ot = full(val), full(out)
        m = re.match(r"ScaleOutcome::(\w+)", ot)
        kind = m.group(1) if m else "?"
        seen.add(kind)
        if kind == "Fixed":
            ok = vt == "self as Fixed.0"
            msg = f"a Fixed value must be returned untouched; scale returns {vt[:80]}"
        elif kind == "Error":
            ok = vt == "self as Linear.0"
            msg = f"when scaling fails the written value must be kept; scale returns {vt[:80]}"
        elif kind == "Scaled":
            ok = vt.startswith("scale::linear_scale(") and "self as Linear.0" in vt and "ScaleTarget::factor(&target)" in vt and vt.endswith("as Ok.0")
            msg = f"a Linear value must become linear_scale(value, target.factor()); scale returns {vt[:100]}"
        else:
            ok = False
            msg = f"unexpected outcome {ot[:40]} for value {vt[:60]}"
        chk.expect(ok, "C08.D2-identity", f"scale|{kind}", f"{f.file}:{f.line}", msg, sample=f"{kind}: value = {vt[:70]}")
    chk.expect(seen == {"Fixed", "Error", "Scaled"}, "C08.D2-identity", "scale|outcomes", f"{f.file}:{f.line}",
               f"ScalableValue::scale must have exactly the outcomes Fixed, Scaled, Error; found {sorted(seen)}", sample="outcomes: Fixed, Scaled, Error")
    dret = {full(a) for a in alts(resolve_place(g, {"l": 0, "p": []}))}
    chk.expect(dret == {"self as Linear.0", "self as Fixed.0"}, "C08.D2-identity", "default_scale", f"{g.file}:{g.line}",
               f"default scaling must return the written value of both variants verbatim; it returns {sorted(dret)}", sample="default_scale: payload of Fixed / Linear")


def d3_formula(chk, F):
    f = F.funcs.get("cooklang::scale::linear_scale")
    if f is None:
        chk.fail("anchor-missing", "linear_scale", "", "anchor-missing: scale::linear_scale not found")
        return
    want = {
        "Number.0": "(Number::value(value as Number.0) Mul factor)",
        "Range.start": "(Number::value(value as Range.start) Mul factor)",
        "Range.end": "(Number::value(value as Range.end) Mul factor)",
    }
    got = {}
    for a in alts(resolve_place(f, {"l": 0, "p": []})):
        for n in walk(a):
            if n[0] == "agg" and n[1] == "adt" and n[2].endswith("quantity::Value"):
                for fld, fx in n[4]:
                    inner = fx
                    while inner[0] == "call" and inner[1].endswith(("Into<U>>::into", "From<f64>>::from", "Number::Regular")) and inner[2]:
                        inner = inner[2][0]
                    if inner[0] == "agg" and inner[2].endswith("quantity::Number") and inner[4]:
                        inner = inner[4][0][1]
                    got[f"{n[3]}.{fld}"] = _norm_mul(full(inner))
    for k, w in want.items():
        chk.expect(got.get(k) == _norm_mul(w), "C08.D3-formula", f"linear_scale|{k}", f"{f.file}:{f.line}",
                   f"linear_scale must compute {k} as value·factor; it computes {got.get(k, 'nothing')}", sample=f"{k} = {got.get(k)}")
    s = F.funcs.get(S + "scale_to_servings")
    if s is None:
        chk.fail("anchor-missing", "scale_to_servings", "", "anchor-missing: scale_to_servings not found")
        return
    cs = [(b, t) for b, t in s.calls() if callee_key(t) == S + "scale"]
    if len(cs) != 1:
        chk.fail("C08.D3-formula", "scale_to_servings|delegates", f"{s.file}:{s.line}", f"scale_to_servings must delegate to scale() once ({len(cs)})")
        return
    e = arg_expr(s, cs[0][1], 1)
    txt = full(e)
    ok = e[0] == "bin" and e[1] == "Div" and full(e[2]) == "(target as f64)"
    base = e[3] if ok else None
    okb = False
    if base is not None:
        bt = full(base)
        ls = leaves(base)
        okb = any(l.endswith("<impl [T]>::first") for l in ls) and "self.data" in bt and not any(l.endswith(("::last", "::max", "::min", "::iter")) for l in ls) \
            and set(l for l in ls if l.startswith("lit:")) <= {"lit:1"}
    if ok and not okb and base is not None:
        # the same lineage through a getter (`self.servings()`) and the closure given to and_then / map
        from flow import deep_leaves
        dl = deep_leaves(F, base)
        okb = any(l.endswith("<impl [T]>::first") for l in dl) and any(l.startswith("param:self.data") for l in dl) \
            and not any(l.endswith(("::last", "::max", "::min", "::sum", "::len")) for l in dl) and set(l for l in leaves(base) if l.startswith("lit:")) <= {"lit:1"}
    chk.expect(ok and okb, "C08.D3-formula", "scale_to_servings|factor", s.where(cs[0][0]),
               f"scaling to n servings must scale by n / first declared servings (or 1); the factor is {txt[:160]}", sample=f"factor = {txt[:120]}")


def _norm_mul(t):
    t = re.sub(r"\(\*([A-Za-z_][A-Za-z0-9_]*)\)", r"\1", t)      # `(*value)` (argument taken by reference) reads the same value
    m = re.fullmatch(r"\((.*) Mul (.*)\)", t)
    if m:
        a, b = sorted([m.group(1), m.group(2)])
        return f"({a} Mul {b})"
    return t


def d7_default_no_multiply(chk, F):
    """'Default scaling returns the written values verbatim': nothing that a `default_scale` (of the recipe, a component, a quantity or a
    value) runs — resolved calls and closures — is a `Scale::scale` or `linear_scale`: the multiplying path rebuilds every number as a plain
    float, so a written `1/2` would come back as `0.5` even with factor 1."""
    R = "C08.D7-default-verbatim"
    roots = [k for k, g in F.funcs.items() if g.crate == "cooklang" and not g.is_closure() and
             (k.endswith("scale::Scale>::default_scale") or k == S + "default_scale")]
    chk.floor(R, "default_scale implementations", len(roots), 5, "src/scale.rs")
    for root in sorted(roots):
        seen, work, via = set(), [g.key for g in F.region_funcs(root)], {}
        while work:
            k = work.pop()
            if k in seen or k not in F.funcs or F.funcs[k].crate != "cooklang":
                continue
            seen.add(k)
            for kind, tgt, _, _ in F.call_edges(F.funcs[k]):
                if kind != "cha" and tgt not in seen:
                    via.setdefault(tgt, k)
                    work.append(tgt)
        bad = sorted(k for k in seen if k.endswith(("scale::Scale>::scale", "scale::linear_scale")) or k == S + "scale")
        g = F.funcs[root]
        short = root.split(" as scale::Scale>")[0].split("::<", 1)[-1] if " as scale::Scale>" in root else "Recipe"
        chk.expect(not bad, R, f"{short}::default_scale", f"{g.file}:{g.line}",
                   f"default scaling of {short} runs {', '.join(b.rsplit('::', 2)[-2] + '::' + b.rsplit('::', 1)[-1] for b in bad[:3])}: written fractions and mixed numbers "
                   "are rebuilt as plain floats instead of being returned verbatim", sample=f"{g.file}:{g.line}: {short}::default_scale reaches no multiplying path ({len(seen)} functions)")


def d6_outcome_origin(chk, F):
    """'per-component outcomes that … name the case that applied': inside ScalableRecipe::scale the outcome paired with a component
    is the one its own Scale::scale call returned — every closure of the map chains that yields `(component, ScaleOutcome)` either
    returns that call's result directly or rebuilds the pair with the incoming outcome untouched (the post-scale fit does not
    rewrite it)."""
    R = "C08.D6-outcome-origin"
    n = 0
    for g in F.region_funcs(S + "scale"):
        if not g.is_closure() or not norm(g.local_ty(0)).rstrip(")").endswith("scale::ScaleOutcome"):
            continue
        n += 1
        where = f"{g.file}:{g.line}"
        found = False
        for b, t in g.calls():
            if t.get("dest", {}).get("l") == 0 and not t["dest"].get("p"):
                found = True
                k = callee_key(t) or ""
                chk.expect(k.endswith("scale::Scale>::scale"), R, f"{g.key.rsplit('::', 1)[-1]}|direct", g.where(b),
                           f"the (component, outcome) pair comes from {k.rsplit('::', 2)[-2]}::{k.rsplit('::', 1)[-1]}, not from the component's Scale::scale",
                           sample=f"{g.where(b)}: pair ← component.scale(target)")
        for i, j, st in g.iter_stmts():
            if st["k"] == "assign" and st["place"]["l"] == 0 and not st["place"]["p"]:
                found = True
                rv = st["rv"]
                if rv.get("k") == "agg" and rv.get("agg") == "tuple" and len(rv["ops"]) == 2:
                    e = resolve(g, rv["ops"][1])
                    pure = not any(x[0] in ("call", "agg", "bin", "phi", "const") for x in walk(e)) and any(l.startswith("param:") for l in leaves(e))
                    # fused form `let (c, o) = component.scale(target); ..; (c, o)`: the outcome half of the Scale::scale result itself
                    if not pure and e[0] == "place" and tuple(p for p in e[2] if p != "*") == (".1",) and e[1][0] == "call" and \
                            e[1][1].endswith("scale::Scale>::scale"):
                        pure = True
                    chk.expect(pure, R, f"{g.key.rsplit('::', 1)[-1]}|outcome", f"{g.file}:{st.get('line')}",
                               f"the outcome paired with a scaled component is {full(e)[:100]}, not the outcome its Scale::scale returned: the reported case no longer "
                               "names what happened to the amount", sample=f"{g.file}:{st.get('line')}: outcome passed through unchanged")
                else:
                    chk.fail(R, f"{g.key.rsplit('::', 1)[-1]}|shape", f"{g.file}:{st.get('line')}",
                             "a (component, outcome) pair is produced in a form this rule does not recognise (neither a Scale::scale result nor a rebuilt pair)")
        if not found:
            chk.fail(R, f"{g.key.rsplit('::', 1)[-1]}|shape", where, "no return value found for a (component, outcome) closure")
    chk.floor(R, "(component, outcome) closures in ScalableRecipe::scale", n, 3, "src/scale.rs")


def d4_lineage(chk, F):
    for name in ("scale", "default_scale"):
        rec = [(ff, i, s, d) for ff, i, s, d in aggregates(F, S + name, "model::Recipe") if ff.key == S + name]
        if len(rec) != 1:
            chk.fail("anchor-missing", S + name, "", f"anchor-missing: Recipe construction in {name} ({len(rec)})")
            continue
        ff, i, s, d = rec[0]
        where = f"{ff.file}:{s.get('line')}"
        for fld in ("metadata", "sections", "inline_quantities"):
            t = full(resolve(ff, d[fld]))
            chk.expect(t == f"self.{fld}", "C08.D4-lineage", f"{name}|{fld}", where,
                       f"{name}() must move self.{fld} unchanged into the scaled recipe; it uses {t[:80]}", sample=f"{name}: {fld} ← self.{fld}")
        for fld in ("ingredients", "cookware", "timers"):
            e = resolve(ff, d[fld])
            t = full(e)
            ok = f"into_iter(self.{fld})" in t and not any(o != fld and f"self.{o}" in t for o in ("ingredients", "cookware", "timers"))
            if not ok and name == "default_scale" and not any(o != fld and f"self.{o}" in t for o in ("ingredients", "cookware", "timers")):
                # through a helper that maps the vector element-wise: a user function that receives self.<fld> and reaches Scale::default_scale
                from cfgq import calls_reaching
                rb = set(calls_reaching(F, ff, "scale::Scale>::default_scale")) | set(calls_reaching(F, ff, "scale::Scale::default_scale"))
                ok = any(n[0] == "call" and n[3] in rb and any(f"self.{fld}" == full(a) for a in n[2]) for n in walk(e))
            chk.expect(ok, "C08.D4-lineage", f"{name}|{fld}", where, f"{name}() builds `{fld}` from {t[:100]}", sample=f"{name}: {fld} ← map over self.{fld}")
            if name == "scale":
                fits = False
                for n in walk(e):
                    if n[0] == "agg" and n[1] == "closure" and n[2] in F.funcs:
                        if calls_to(F.funcs[n[2]], "Quantity>::fit"):
                            fits = True
                if fld == "cookware":
                    chk.expect(not fits, "C08.D4-lineage", "scale|cookware not fitted", where, "cookware amounts are passed to Quantity::fit", sample="cookware chain has no fit()")
        if name == "scale":
            sd = [(g, j, s2, d2) for g, j, s2, d2 in aggregates(F, S + name, "scale::ScaledData") if g is ff]
            if len(sd) != 1:
                chk.fail("anchor-missing", "ScaledData", where, "anchor-missing: ScaledData construction")
            else:
                g, j, s2, d2 = sd[0]
                for fld in ("ingredients", "cookware", "timers"):
                    t = full(resolve(g, d2[fld]))
                    comp = full(resolve(ff, d[fld]))
                    ok = t.endswith(".1") and comp.endswith(".0") and t[:-2] == comp[:-2]
                    chk.expect(ok, "C08.D4-lineage", f"outcomes|{fld}", where,
                               f"ScaledData.{fld} must be the outcome half of the same unzip that produced recipe.{fld}; it is {t[:100]}",
                               sample=f"ScaledData.{fld} ← same unzip as recipe.{fld}")
    for ty, fields in (("Ingredient", ["name", "alias", "note", "reference", "relation", "modifiers"]),
                       ("Cookware", ["name", "alias", "note", "relation", "modifiers"]), ("Timer", ["name"])):
        for meth in ("scale", "default_scale"):
            k = f"cooklang::<model::{ty}<quantity::ScalableValue> as scale::Scale>::{meth}"
            ag = [(ff, i, s, d) for ff, i, s, d in aggregates(F, k, "model::" + ty) if ff.key == k]
            if len(ag) != 1:
                chk.fail("anchor-missing", k, "", f"anchor-missing: {ty} construction in {meth}")
                continue
            ff, i, s, d = ag[0]
            where = f"{ff.file}:{s.get('line')}"
            for fld in fields:
                t = full(resolve(ff, d[fld]))
                chk.expect(t == f"self.{fld}", "C08.D4-lineage", f"{ty}::{meth}|{fld}", where,
                           f"{ty}::{meth} must move self.{fld} unchanged; it uses {t[:80]}", sample=f"{ty}::{meth}: {fld} ← self.{fld}")
            q = full(resolve(ff, d["quantity"]))
            chk.expect("self.quantity" in q and not any(f"self.{o}" in q for o in fields), "C08.D4-lineage", f"{ty}::{meth}|quantity", where,
                       f"{ty}::{meth} builds the quantity from {q[:80]}", sample=f"{ty}::{meth}: quantity ← self.quantity")
