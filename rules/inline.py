"""Normalisation by inlining: a second view of the program in which every crate-private helper function with a single call
site, and every closure that is called directly by its parent, is inlined into its caller (MIR level: blocks copied, locals
renumbered, arguments bound by assignments, `return` replaced by an assignment to the call's destination + goto).

Why: the rules are written against the shape of specific functions; the most common behaviour-preserving edit, extracting a
helper (or a local closure), moves the shape somewhere else.  The rules are first evaluated on the program as written; only the
rules that fail are re-evaluated on the normalised view, and an alarm is raised only if it fails there too (harness.run_rules).
On the normalised view single-use helpers no longer exist as functions of their own, so inventories keyed by function see a
moved site under its old key."""
from __future__ import annotations

import copy
import re

from facts import Facts, Func, norm, callee_key

_IDX = re.compile(r"\[_(\d+)\]")
MAX_CALLEE_BLOCKS = 160
MAX_DEPTH = 3


def _shift(o, lo, bo):
    """renumber locals (+lo) and blocks (+bo) in a copied statement / terminator"""
    if isinstance(o, dict):
        if "l" in o and "p" in o and isinstance(o["l"], int) and isinstance(o["p"], list):
            o["l"] += lo
            o["p"] = [_IDX.sub(lambda m: f"[_{int(m.group(1)) + lo}]", x) for x in o["p"]]
            return o
        for k, v in list(o.items()):
            if k == "target" and isinstance(v, int):
                o[k] = v + bo
            elif k == "otherwise" and isinstance(v, int):
                o[k] = v + bo
            elif k == "targets" and isinstance(v, list):
                o[k] = [[a, b + bo] for a, b in v]
            else:
                _shift(v, lo, bo)
    elif isinstance(o, list):
        for v in o:
            _shift(v, lo, bo)
    return o


def _raw(f: Func):
    return {"key": f.raw_key, "kind": f.kind, "file": f.file, "line": f.line, "macros": list(f.macros), "locals": copy.deepcopy(f.locals),
            "blocks": copy.deepcopy(f.blocks), "argc": f.argc, "vis": f.vis, "exported": f.exported, "unsafe": f.unsafe, "upvars": list(f.upvars),
            **({"root": f.root} if f.root else {}), **({"parent": f.parent} if f.parent else {}),
            **({"impl_self": f.impl_self} if f.impl_self else {}), **({"impl_trait": f.impl_trait} if f.impl_trait else {})}


def _inline_into(j, g: Func, bi: int, as_closure: bool):
    """inline callee g at the call terminating block bi of raw function j (in place)"""
    t = j["blocks"][bi]["term"]
    lo, bo = len(j["locals"]), len(j["blocks"])
    j["locals"] += copy.deepcopy(g.locals)
    new_blocks = _shift(copy.deepcopy(g.blocks), lo, bo)
    line = t.get("line")
    pro = []
    args = t.get("args", [])
    if as_closure:
        # Fn*::call(closure_ref, (a, b, ..)) : _1 = env, _2.. = tuple fields
        if args:
            pro.append({"k": "assign", "place": {"l": lo + 1, "p": []}, "rv": {"k": "use", "op": copy.deepcopy(args[0])}, "line": line, "inlined": g.key})
        if len(args) > 1:
            tp = args[1].get("move") or args[1].get("copy")
            for i in range(2, g.argc + 1):
                if tp is not None:
                    op = {"move": {"l": tp["l"], "p": list(tp["p"]) + [f".{i - 2}"]}}
                else:
                    op = copy.deepcopy(args[1])
                pro.append({"k": "assign", "place": {"l": lo + i, "p": []}, "rv": {"k": "use", "op": op}, "line": line, "inlined": g.key})
    else:
        for i, a in enumerate(args[: g.argc], start=1):
            pro.append({"k": "assign", "place": {"l": lo + i, "p": []}, "rv": {"k": "use", "op": copy.deepcopy(a)}, "line": line, "inlined": g.key})
    for nb in new_blocks:
        for st in nb["stmts"]:
            st.setdefault("file", g.file)
        nb["term"].setdefault("file", g.file)
    new_blocks[0]["stmts"] = pro + new_blocks[0]["stmts"]
    tgt = t.get("target")
    for nb in new_blocks:
        if nb["term"]["k"] == "return":
            nb["stmts"].append({"k": "assign", "place": copy.deepcopy(t["dest"]), "rv": {"k": "use", "op": {"move": {"l": lo, "p": []}}},
                                "line": nb["term"].get("line"), "inlined": g.key, "file": g.file})
            nb["term"] = {"k": "goto", "target": tgt, "line": nb["term"].get("line")} if tgt is not None else {"k": "unreachable", "line": line}
    j["blocks"] += new_blocks
    j["blocks"][bi]["term"] = {"k": "goto", "target": bo, "line": line, "inlined_call": g.key}
    if tgt is not None and not as_closure:
        _thread_try(j, t, tgt, lo, bo, len(new_blocks))


def _thread_try(j, call_t, T, lo, bo, n):
    """`helper()?` after inlining: the helper's return paths merge in front of `Try::branch` and the switch on its result, so a
    test made inside the helper no longer dominates the code after the `?`.  When every return path of the inlined helper builds
    a known variant (Some/Ok → Continue, None/Err or `from_residual` → Break) each path is sent straight to the matching arm."""
    blocks = j["blocks"]
    D = call_t["dest"]
    if D["p"]:
        return
    tb = blocks[T]
    tt = tb["term"]
    if tb["stmts"] or tt["k"] != "call" or not (tt.get("callee", {}).get("rdef", "") or "").endswith("as std::ops::Try>::branch"):
        return
    a0 = tt["args"][0].get("move") or tt["args"][0].get("copy")
    if a0 is None or a0["l"] != D["l"] or a0["p"] or tt["dest"]["p"] or tt.get("target") is None:
        return
    CF = tt["dest"]["l"]
    t2 = blocks[tt["target"]]
    if len(t2["stmts"]) != 1 or t2["stmts"][0]["rv"].get("k") != "discr" or t2["stmts"][0]["rv"]["place"] != {"l": CF, "p": []} or t2["term"]["k"] != "switch":
        return
    arms = dict((v, b) for v, b in t2["term"]["targets"])
    if "0" not in arms or "1" not in arms:
        return
    cont, brk = arms["0"], arms["1"]
    ret0 = lo                                   # the helper's return place
    rng = range(bo, bo + n)
    rets = [i for i in rng if blocks[i]["term"]["k"] == "goto" and blocks[i]["term"].get("target") == T and blocks[i]["stmts"]
            and blocks[i]["stmts"][-1].get("inlined") and blocks[i]["stmts"][-1]["place"] == D]
    plan = []
    for r in rets:
        if len(blocks[r]["stmts"]) != 1:
            return
        preds = []
        for i in rng:
            tm = blocks[i]["term"]
            if i != r and ((tm["k"] in ("goto", "drop", "assert") and tm.get("target") == r) or (tm["k"] == "call" and tm.get("target") == r)):
                preds.append(i)
            elif i != r and tm["k"] == "switch" and (r in [x[1] for x in tm["targets"]] or tm["otherwise"] == r):
                return
        if not preds:
            return
        def classify(p_, via, depth=0):
            """what the helper's return place holds when control leaves block p_ towards `via`"""
            tm = blocks[p_]["term"]
            if tm["k"] == "call" and tm.get("target") == via and tm["dest"] == {"l": ret0, "p": []}:
                return ("Break", None) if "FromResidual" in (tm.get("callee", {}).get("rdef", "") or "") else None
            for st in reversed(blocks[p_]["stmts"]):
                if st["k"] == "assign" and st["place"]["l"] == ret0:
                    rv = st["rv"]
                    if not st["place"]["p"] and rv.get("k") == "agg" and rv.get("agg") == "adt" and rv.get("adt", "").endswith(("option::Option", "result::Result")):
                        v = rv["variant"]
                        return ("Continue", v) if v in ("Some", "Ok") else ("Break", v)
                    return None
            if tm["k"] == "call" and tm["dest"]["l"] == ret0:
                return None
            # nothing here writes the return place: look at the unique predecessor
            if depth > 3:
                return None
            pp = [i for i in rng if i != p_ and (blocks[i]["term"].get("target") == p_ or p_ in [x[1] for x in blocks[i]["term"].get("targets", [])]
                                                 or blocks[i]["term"].get("otherwise") == p_)]
            if len(pp) != 1 or blocks[pp[0]]["term"]["k"] == "switch":
                return None
            return classify(pp[0], p_, depth + 1)
        for p_ in preds:
            kind = classify(p_, r)
            if kind is None:
                return
            plan.append((p_, r, kind))
    if not plan:
        return
    for p_, r, (kind, v) in plan:
        nb = len(blocks)
        ops = [{"move": {"l": D["l"], "p": [f"as {v}", ".0"]}}] if kind == "Continue" else [{"const": {"ty": "residual", "zst": True}}]
        blocks.append({"stmts": [copy.deepcopy(blocks[r]["stmts"][0]),
                                 {"k": "assign", "place": {"l": CF, "p": []},
                                  "rv": {"k": "agg", "agg": "adt", "adt": "std::ops::ControlFlow", "variant": kind, "fields": ["0"], "targs": [], "ops": ops},
                                  "line": blocks[r]["term"].get("line"), "inlined": "try-threading"}],
                       "term": {"k": "goto", "target": cont if kind == "Continue" else brk, "line": blocks[r]["term"].get("line")}})
        blocks[p_]["term"]["target"] = nb


def _reference(with_sig=False):
    import os
    import harness
    p = os.path.join(harness.VERIF, "tables", "functions.txt")
    keys, sigs = set(), {}
    with open(p) as fh:
        for l in fh:
            if not l.strip() or l.startswith("#"):
                continue
            parts = l.rstrip("\n").split("\t")
            keys.add(parts[0])
            if len(parts) >= 3:
                sigs[parts[0]] = (int(parts[1]), parts[2])
    return (keys, sigs) if with_sig else keys


def _rekey_closures(o, mapping):
    """closure aggregates / callee keys that name a re-homed closure"""
    if isinstance(o, dict):
        for k, v in list(o.items()):
            if isinstance(v, str) and k in ("closure", "def", "rdef", "fn") and norm(v) in mapping:
                o[k] = mapping[norm(v)]
            else:
                _rekey_closures(v, mapping)
    elif isinstance(o, list):
        for v in o:
            _rekey_closures(v, mapping)


def renamed(F: Facts) -> Facts:
    """Undo function renames: a reference function (tables/functions.txt) that no longer exists and a function that is not in the
    reference list are paired when they live in the same module / impl, have the same parameter and return types and the pairing
    is unique; the new function (and its closures) is then given the old key, and every reference to it is rewritten."""
    ref, sigs = _reference(with_sig=True)
    have = {k for k, g in F.funcs.items() if not g.is_closure() and not g.generated}
    missing = sorted(ref - set(F.funcs))
    fresh = sorted(have - ref)
    if not missing or not fresh:
        return F

    def sig(g):
        return (g.argc, "|".join((g.locals[i].get("ty") or "?") for i in range(0, g.argc + 1) if i < len(g.locals)))

    def parent(k):
        return k.rsplit("::", 1)[0]
    mapping = {}
    taken = set()
    for old in missing:
        want = sigs.get(old)
        cands = [k for k in fresh if k not in taken and (want is None or sig(F.funcs[k]) == want)]
        same_parent = [k for k in cands if parent(k) == parent(old)]
        same_name = [k for k in cands if k.rsplit("::", 1)[-1] == old.rsplit("::", 1)[-1]]
        pick = None
        if want is not None and len(same_parent) == 1:
            pick = same_parent[0]                       # renamed in place
        elif len(same_name) == 1:
            pick = same_name[0]                         # moved to another module / impl
        elif want is not None and len(cands) == 1:
            pick = cands[0]
        if pick is not None:
            mapping[pick] = old
            taken.add(pick)
    if not mapping:
        return F
    full = dict(mapping)
    for k, g in F.funcs.items():
        if g.is_closure() and g.region in mapping:
            full[k] = mapping[g.region] + k[len(g.region):]
    new = copy.copy(F)
    new.funcs = {}
    new._cg = None
    new._rev = None
    new._closures_by_region = None
    for k, f in F.funcs.items():
        j = _raw(f)
        _rekey_closures(j["blocks"], full)
        if k in full:
            j["key"] = full[k]
            for fld in ("root", "parent"):
                if j.get(fld) in full:
                    j[fld] = full[j[fld]]
                elif j.get(fld) in mapping:
                    j[fld] = mapping[j[fld]]
        nf = Func(j, f.crate)
        new.funcs[nf.key] = nf
    new.renamed = mapping
    return new


def normalise(F: Facts, closures: bool = False) -> Facts:
    """A copy of the fact base in which every function that is NOT in the reviewed reference list (tables/functions.txt: the
    functions of the pinned tree) — i.e. a freshly extracted helper — is inlined at all of its call sites and removed, and its
    closures are re-homed into the caller's region.  Functions the rules know about are left exactly as they are."""
    ref = _reference()
    new_fns = {}
    for k, g in F.funcs.items():
        if g.is_closure() or g.generated or k in ref or g.nblocks == 0 or g.nblocks > MAX_CALLEE_BLOCKS:
            continue
        if g.kind.startswith(("Const", "AssocConst", "Static", "AnonConst", "InlineConst")) or g.impl_trait is not None:
            continue
        uses = F.callers_of(k)
        if not uses or any(kind not in ("call",) for _, kind, _, _ in uses):
            continue
        if any(f.key == k for f, _, _, _ in uses):      # recursive
            continue
        new_fns[k] = g
    new = copy.copy(F)
    new.funcs = dict(F.funcs)
    new._cg = None
    new._rev = None
    new._closures_by_region = None
    changed = {}
    rehomed = {}

    def build(k, stack):
        if k in changed:
            return changed[k]
        f = F.funcs[k]
        sites = [(b, callee_key(t)) for b, t in f.calls() if callee_key(t) in new_fns and callee_key(t) not in stack and callee_key(t) != k]
        csites = []
        if closures:
            # closures of this very region that are called directly (`let conv = |v| ..; conv(x)`)
            csites = [(b, callee_key(t)) for b, t in f.calls()
                      if callee_key(t) in F.funcs and F.funcs[callee_key(t)].is_closure() and F.funcs[callee_key(t)].region == f.region
                      and callee_key(t) != k and F.funcs[callee_key(t)].nblocks <= 40]
        if (not sites and not csites) or len(stack) > MAX_DEPTH:
            return f
        j = _raw(f)
        for b, ck in csites:
            _inline_into(j, F.funcs[ck], b, as_closure=True)
        for n, (b, ck) in enumerate(sites):
            g = build(ck, stack | {k})
            # closures of the helper move into the caller's region under fresh names
            mapping = {}
            for c in F.funcs.values():
                if c.is_closure() and c.region == ck:
                    nk = f"{region_key(k)}::{{closure#inl{n}.{ck.rsplit('::', 1)[-1]}.{c.key.rsplit('#', 1)[-1]}"
                    mapping[c.key] = nk
            before = len(j["blocks"])
            _inline_into(j, g, b, as_closure=False)
            if mapping:
                _rekey_closures(j["blocks"][before:], mapping)
                for ok_, nk in mapping.items():
                    cj = _raw(F.funcs[ok_])
                    cj["key"] = nk
                    cj["root"] = region_key(k)
                    cj["parent"] = region_key(k)
                    _rekey_closures(cj["blocks"], mapping)
                    rehomed[nk] = Func(cj, f.crate)
        nf = Func(j, f.crate)
        changed[k] = nf
        return nf

    for k in sorted(F.funcs):
        if k not in new_fns and not (closures and F.funcs[k].is_closure() and False):
            build(k, frozenset())
    for k, nf in changed.items():
        new.funcs[k] = nf
    for k in new_fns:
        new.funcs.pop(k, None)
        for c in [c for c in new.funcs if new.funcs[c].is_closure() and new.funcs[c].region == k]:
            new.funcs.pop(c, None)
    new.funcs.update(rehomed)
    new.inlined = {"functions_changed": sorted(changed), "helpers_inlined": sorted(new_fns), "closures_rehomed": len(rehomed)}
    return new


def rehome(F: Facts) -> Facts:
    """Second normalised view, for rules that work per REGION (inventories, 'somewhere in f and its closures'): a function that
    is not in the reference list and whose callers all lie in one region is kept as it is but re-keyed as a member of that
    region (`<caller>::{closure#h.<name>}`), so its sites are attributed to the caller once, however often it is called."""
    from facts import region_of
    ref = _reference()
    new = copy.copy(F)
    new.funcs = dict(F.funcs)
    new._cg = None
    new._rev = None
    new._closures_by_region = None
    homes = {}
    for k, g in sorted(F.funcs.items()):
        if g.is_closure() or g.generated or k in ref or g.nblocks == 0 or g.impl_trait is not None:
            continue
        if g.kind.startswith(("Const", "AssocConst", "Static", "AnonConst", "InlineConst")):
            continue
        uses = F.callers_of(k)
        regions = {region_of(f.key) for f, kind, _, _ in uses}
        regions.discard(k)
        if len(regions) == 1:
            homes[k] = next(iter(regions))
    # a helper called from another fresh helper ends up in that helper's home
    def final_home(k, depth=0):
        h = homes[k]
        while h in homes and depth < 8:
            h = homes[h]
            depth += 1
        return h
    mapping = {}
    for k in homes:
        home = final_home(k)
        mapping[k] = f"{home}::{{closure#h.{k.rsplit('::', 1)[-1]}}}"
        for c in F.funcs.values():
            if c.is_closure() and c.region == k:
                mapping[c.key] = f"{home}::{{closure#h.{k.rsplit('::', 1)[-1]}.{c.key.rsplit('#', 1)[-1]}"
    if mapping:
        for k, f in list(new.funcs.items()):
            j = _raw(f)
            _rekey_closures(j["blocks"], mapping)
            if k in mapping:
                j["key"] = mapping[k]
                new.funcs.pop(k)
                nf = Func(j, f.crate)
                new.funcs[nf.key] = nf
            else:
                new.funcs[k] = Func(j, f.crate)
    new.inlined = {"rehomed": mapping}
    return new


def region_key(k):
    from facts import region_of
    return region_of(k)
