"""Thorough-tier extras: further build configurations, clippy census cross-reference, type-level witnesses.
Still static: cargo check / clippy / `test --doc --no-run` compile, nothing of cooklang is executed."""
from __future__ import annotations

import collections
import json
import os
import re
import shutil
import subprocess

import harness


def clippy_census():
    """lint name -> count per crate, from `cargo +nightly clippy` on the current tree (library targets)."""
    target = os.path.join(harness.CACHE, "target-clippy")
    env = dict(os.environ, CARGO_TARGET_DIR=target, CARGO_NET_OFFLINE="true")
    for fp in ("cooklang*",):
        import glob
        for d in glob.glob(os.path.join(target, "debug", ".fingerprint", fp)):
            shutil.rmtree(d, ignore_errors=True)
    lints = ["unwrap_used", "expect_used", "panic", "todo", "unimplemented", "unreachable"]
    cmd = ["cargo", "+nightly", "clippy", "--offline", "-p", "cooklang", "-p", "cooklang-bindings", "--message-format=json", "--", "-A", "clippy::all"]
    for l in lints:
        cmd += ["-W", "clippy::" + l]
    r = subprocess.run(cmd, cwd=harness.REPO, env=env, stdout=subprocess.PIPE, stderr=subprocess.PIPE, text=True)
    if r.returncode != 0:
        raise harness.SetupError("cargo clippy failed:\n" + r.stderr[-2000:])
    c = collections.Counter()
    for line in r.stdout.splitlines():
        try:
            m = json.loads(line)
        except Exception:
            continue
        if m.get("reason") != "compiler-message":
            continue
        code = (m["message"].get("code") or {}).get("code") or ""
        if code.startswith("clippy::") and not m["target"]["name"].startswith("build-script"):
            c[(m["target"]["name"], code[8:])] += 1
    return c


def witnesses():
    """Compile the doc-test witnesses against the current tree. Returns (ok, n_tests, output tail)."""
    th = harness.tree_hash()
    work = os.path.join(harness.CACHE, "witnesses")
    os.makedirs(os.path.join(work, "src"), exist_ok=True)
    src = os.path.join(harness.VERIF, "witnesses")
    with open(os.path.join(src, "Cargo.toml.in")) as fh:
        toml = fh.read().replace("@REPO@", harness.REPO)
    with open(os.path.join(work, "Cargo.toml"), "w") as fh:
        fh.write(toml)
    shutil.copy(os.path.join(src, "src", "lib.rs"), os.path.join(work, "src", "lib.rs"))
    shutil.copy(os.path.join(harness.REPO, "Cargo.lock"), os.path.join(work, "Cargo.lock"))
    env = dict(os.environ, CARGO_TARGET_DIR=os.path.join(harness.CACHE, "target-witnesses"), CARGO_NET_OFFLINE="true")
    r = subprocess.run(["cargo", "+nightly", "test", "--doc", "--offline"], cwd=work, env=env,
                       stdout=subprocess.PIPE, stderr=subprocess.STDOUT, text=True)
    out = r.stdout
    m = re.search(r"test result: (\w+)\. (\d+) passed; (\d+) failed", out)
    n = int(m.group(2)) if m else 0
    failed = [l for l in out.splitlines() if l.startswith("test ") and ("FAILED" in l or "failed" in l)]
    return r.returncode == 0 and m is not None and m.group(1) == "ok", n, failed or out[-1500:].splitlines()[-12:]
