"""C13 — standard metadata values are interpreted as documented (partial).

Decided clauses:
  D1  validator/accessor sibling agreement: for each standard key, the interpretation function
      used by the parse-time check is the one the public accessor reaches, the accessor reads
      that key, and both metadata styles run the check with the parser's converter and store
      the servings it returns;
  D2  no wrapped number: C03.D2 (integer arithmetic discipline) restricted to metadata.rs;
  D3  servings: the declared list is returned untouched (no in-place reordering), and the
      duplicate test works on a sorted copy.
Not decided: what each parser accepts and returns."""
from __future__ import annotations

import re

import harness
import c03
from facts import Facts, callee_key, norm, region_of
from flow import resolve, resolve_place, leaves, show, walk
from cfgq import calls_to, region_calls_to, arg_expr, arg_leaves, variant_arm_blocks, assigns_to_field, has_field, call_result_edges
from c16 import recv_name

M = "cooklang::metadata::"

# key -> (function the parse-time check must call, accessor method, function the accessor must reach)
SIBLINGS = {
    "Servings": ("value_as_servings", "servings", M + "value_as_servings"),
    "Tags": ("value_as_tags", "tags", M + "value_as_tags"),
    "Time": ("value_as_time", "time", M + "value_as_time"),
    "PrepTime": ("value_as_minutes", "time", M + "value_as_minutes"),
    "CookTime": ("value_as_minutes", "time", M + "value_as_minutes"),
    "Locale": ("value_as_locale", "locale", M + "value_as_locale"),
    "Author": ("as_name_and_url", "author", "cooklang::<serde_yaml::Value as metadata::CooklangValueExt>::as_name_and_url"),
    "Source": ("as_name_and_url", "source", "cooklang::<serde_yaml::Value as metadata::CooklangValueExt>::as_name_and_url"),
    "Title": ("as_str", "title", "serde_yaml::Value::as_str"),
    "Description": ("as_str", "description", "serde_yaml::Value::as_str"),
}
MUTATORS = {"sort", "sort_unstable", "sort_by", "sort_by_key", "sort_unstable_by", "sort_unstable_by_key", "dedup", "dedup_by", "dedup_by_key", "reverse",
            "retain", "retain_mut", "swap", "swap_remove", "remove", "truncate", "drain", "rotate_left", "rotate_right", "clear", "pop", "insert"}


def full(e):
    import flow
    return flow.show(e, -50)


def run(chk: harness.Check):
    paths, th = harness.mir_facts("Q")
    F = Facts(paths)
    chk.explanation = (
        "D1: on the MIR of metadata::check_std_entry each StdKey arm is mapped to the interpretation function it calls, and the call-graph reach of the "
        "matching public Metadata accessor must contain the same function while the accessor reads the same key constant; process_frontmatter and "
        "metadata() call check_std_entry with self.converter and store its Servings in content.data. D2: integer arithmetic inventory restricted to the "
        "metadata module. D3: in value_as_servings no order-changing or element-removing Vec method is applied to the vector that is returned, and every "
        "dedup/windows test runs on a vector that was sorted first. D7: the by-name minutes unit is a Time unit before it is converted to. D6: the number of a number-unit pair is cut by find(|c| !c.is_ascii_digit() && c != '.'). D5: nothing reachable from check_std_entry is one of the error-discarding accessors (value_as_*(..).ok()). D4: value_as_tags returns a vector it fills by pushes that lie under the false outcomes of is_empty() and contains(). D8: an Ok of value_as_locale lies under a successful two-ASCII-letter test of the language and, when it can carry a dialect, of the dialect. Necessary conditions: what the parsers accept is not decided.")
    chk.trusted = ["rustc MIR, resolved callees", "tables/narrow_arith.toml"]
    chk.analysed = {"facts": th}
    d1_siblings(chk, F)
    regions = {region_of(k) for k, f in F.funcs.items() if k.startswith(M) or k.startswith("cooklang::<serde_yaml::Value as metadata::")}
    n = c03.d2_arith(chk, F, pid="C13", only_regions=regions)
    chk.notes["arith_sites_in_metadata"] = n
    d3_servings(chk, F)
    d4_tags(chk, F)
    d5_strict(chk, F)
    d6_number_part(chk, F)
    d7_minutes_is_time(chk, F)
    d8_locale(chk, F)


def _tuple_alternatives(e):
    """`let (a, b) = match .. { .. => (x, y), .. => (z, w) }; test(a)`: the argument resolves to φ(tuple(x, y) | tuple(z, w)).0 —
    distribute the field projection over the alternatives so that the lineage of `a` does not mention `y` / `w`."""
    while e[0] in ("ref", "deref") or (e[0] == "place" and e[2] and e[2][0] == "*" and len(e[2]) == 1):
        e = e[1]
    proj = tuple(p for p in (e[2] if e[0] == "place" else ()) if p != "*")
    if e[0] == "place" and e[1][0] == "phi" and len(proj) == 1 and proj[0] in (".0", ".1"):
        idx = int(proj[0][1:])
        out = []
        for alt in e[1][1]:
            a = alt
            while a[0] == "ref":
                a = a[1]
            if a[0] == "agg" and a[1] == "tuple" and len(a[4]) > idx:
                out.append(a[4][idx][1])
            else:
                out.append(("place", alt, e[2]))
        return out
    return [e]


def d8_locale(chk, F):
    """'locale as `ll` or `ll_CC`; a value outside the documented forms gives a warning and nothing from the accessor':
    no path of value_as_locale reaches an accepting result (`Ok((lang, dial))`, or `Some((lang, dial))` turned into the result by
    ok_or) without a successful two-letter test of the language part, and — when the result can carry a dialect — without a
    successful test of the dialect part (an invalid dialect is an error, it is not dropped). Path-sensitive: hoisted bools,
    `&&` chains, match guards and `Option::map_or(true, test)` are followed. The test itself compares the length with 2 and
    checks every char with is_ascii_alphabetic."""
    from cfgq import path_without_success
    R = "C13.D8-locale"
    fs = [g for g in F.find("metadata::value_as_locale") if not g.is_closure()]
    if len(fs) != 1:
        chk.fail("anchor-missing", "value_as_locale", "", "anchor-missing: metadata::value_as_locale not found")
        return
    f = fs[0]
    # the part test: the nested bool-returning helper of value_as_locale (whatever it is called)
    vs = [g for k, g in F.funcs.items() if k.startswith(f.key + "::") and not g.is_closure() and "{closure" not in k and norm(g.local_ty(0)) == "bool"]
    if len(vs) != 1:
        chk.fail("anchor-missing", "value_as_locale::validate", f"{f.file}:{f.line}", f"anchor-missing: the two-letter test of value_as_locale (nested fn returning bool) found {len(vs)} times")
        return
    v = vs[0]
    tests = []          # (block, dest local, is_dialect_test)
    for b, t in f.calls():
        k = callee_key(t) or ""
        arg0 = None
        if k == v.key:
            arg0 = t["args"][0]
        elif k.endswith(("Option::<T>::map_or", "Option::<T>::is_some_and", "Option::<T>::is_none_or")) and any(
                ((a.get("const") or {}).get("fn") or {}).get("def", "").endswith(v.key.split("::", 1)[1]) or
                norm(((a.get("const") or {}).get("fn") or {}).get("rdef", "") or "") == v.key for a in t["args"]):
            arg0 = t["args"][0]
        if arg0 is None or t["dest"]["p"]:
            continue
        txt = " | ".join(show(x, -80) for x in _tuple_alternatives(resolve(f, arg0)))
        tests.append((b, t["dest"]["l"], ".1" in txt))
    chk.floor(R, "two-letter tests in value_as_locale", len(tests), 1, f"{f.file}:{f.line}")
    accepts = []
    for i, j, st in f.iter_stmts():
        rv = st.get("rv", {})
        if st["k"] == "assign" and rv.get("k") == "agg" and rv.get("agg") == "adt" and (
                (norm(rv["adt"]).endswith("result::Result") and rv.get("variant") == "Ok") or
                (norm(rv["adt"]).endswith("option::Option") and rv.get("variant") == "Some" and "Option<&str>)" in " ".join(rv.get("targs", [])))):
            e = resolve(f, rv["ops"][0])
            if e[0] == "agg" and e[1] == "tuple" and len(e[4]) == 2:
                accepts.append((i, st, e))
    chk.floor(R, "accepting results of value_as_locale", len(accepts), 1, f"{f.file}:{f.line}")
    for n, (i, st, e) in enumerate(accepts):
        dial = e[4][1][1]
        no_dialect = dial[0] == "agg" and dial[1] == "adt" and dial[3] == "None"
        where = f"{f.file}:{st.get('line')}"
        w = path_without_success(f, i, [d for _, d, isd in tests if not isd])
        chk.expect(w is None, R, f"value_as_locale|accept#{n}|language", where,
                   f"a locale can be accepted without a successful two-letter test of its language part (path through lines "
                   f"{sorted({f.blocks[x]['term'].get('line') for x in (w or []) if f.blocks[x]['term'].get('line')})[:8]})",
                   sample=f"{where}: every path to this result has seen the language test succeed")
        if not no_dialect:
            dt = [d for _, d, isd in tests if isd]
            w = path_without_success(f, i, dt) if dt else [i]
            chk.expect(w is None, R, f"value_as_locale|accept#{n}|dialect", where,
                       "a locale that can carry a dialect is accepted on a path where the dialect part was not successfully tested: a malformed dialect "
                       "would be accepted or silently dropped instead of refused" + ("" if dt else " (no test of the dialect part exists)"),
                       sample=f"{where}: every path to this result has seen the dialect test succeed")
    eq2 = any(st["k"] == "assign" and st["rv"].get("k") == "bin" and st["rv"].get("op") == "Eq" and
              any(str((st["rv"][x].get("const") or {}).get("bits")) == "2" for x in ("l", "r")) for _, _, st in v.iter_stmts())
    inner = [callee_key(t) or "" for g in F.region_funcs(v.key) for _, t in g.calls()]
    alpha = any(c.endswith("is_ascii_alphabetic") for c in inner) and any(c.endswith(("Iterator>::all", "Iterator::all")) for c in inner)
    chk.expect(eq2 and alpha, R, "validate|two ascii letters", f"{v.file}:{v.line}",
               f"the locale part test is no longer `len == 2 && all(is_ascii_alphabetic)` (len==2: {eq2}, all alphabetic: {alpha})",
               sample=f"{v.file}:{v.line}: len() == 2 && chars().all(is_ascii_alphabetic)")


def d7_minutes_is_time(chk, F):
    """With a user converter the target of a duration conversion is looked up by name (`min`, `minute`, `minutes`, `m`); the
    conversion only runs under the outcome 'that unit's physical quantity is Time' — otherwise `m` = metre turns lengths into minutes."""
    from cfgq import call_result_edges
    fs = [g for g in F.find("metadata::dynamic_time_units") if not g.is_closure()]
    if len(fs) != 1:
        chk.fail("anchor-missing", "dynamic_time_units", "", "anchor-missing: metadata::dynamic_time_units not found")
        return
    f = fs[0]
    conv = [b for b, t in f.calls() if (callee_key(t) or "").endswith("convert::Converter::convert")]
    chk.floor("C13.D7-minutes-is-time", "convert calls in dynamic_time_units", len(conv), 1, f"{f.file}:{f.line}")
    is_time = []
    for b, t in f.calls():
        ck = callee_key(t) or ""
        d = (t.get("callee") or {}).get("def", "")
        m = re.search(r"PartialEq(?:<[^>]*>)?>?::(eq|ne)$", ck) or re.search(r"PartialEq::(eq|ne)$", d)
        if not m or len(t.get("args", [])) != 2:
            continue
        txt = [full(arg_expr(f, t, 0)), full(arg_expr(f, t, 1))]
        if any("PhysicalQuantity::Time" in x for x in txt) and any("find_unit" in x or "physical_quantity" in x for x in txt):
            te, fe = call_result_edges(f, b)
            is_time += fe if m.group(1) == "ne" else te
    def filtered_by_time(c):
        # `find_unit(..).filter(|u| u.physical_quantity == Time).ok_or(..)?`: the test runs inside Option::filter on the looked-up unit
        t = f.blocks[c]["term"]
        for a in range(len(t.get("args", []))):
            for n in walk(arg_expr(f, t, a)):
                if n[0] == "call" and n[1].endswith("Option::<T>::filter"):
                    for m_ in walk(n):
                        if m_[0] == "agg" and m_[1] == "closure" and m_[2] in F.funcs:
                            g = F.funcs[m_[2]]
                            for gb, gt in g.calls():
                                gk = callee_key(gt) or ""
                                gd = (gt.get("callee") or {}).get("def", "")
                                if (re.search(r"PartialEq(?:<[^>]*>)?>?::eq$", gk) or re.search(r"PartialEq::eq$", gd)) and len(gt.get("args", [])) == 2:
                                    txt = [full(arg_expr(g, gt, 0)), full(arg_expr(g, gt, 1))]
                                    if any("PhysicalQuantity::Time" in x for x in txt) and any("physical_quantity" in x for x in txt) and \
                                            gt["dest"]["l"] == 0 and not gt["dest"]["p"]:
                                        return True
        return False
    for c in conv:
        chk.expect(any(f.edge_dominates(e_, c) for e_ in is_time) or filtered_by_time(c), "C13.D7-minutes-is-time", "dynamic_time_units|convert", f.where(c),
                   "the unit found under the name of minutes is used as conversion target without having been tested to be a Time unit",
                   sample=f"{f.where(c)}: convert(.., minutes) dominated by minutes.physical_quantity == Time")


def d6_number_part(chk, F):
    """In a number-unit pair the number is the leading run of ASCII digits and '.': the boundary that parse_time_with_units
    hands to split_at comes from `find` with a predicate that is exactly "not an ASCII digit and not '.'". (f64::from_str alone
    accepts signs, exponents, `inf` and `nan`; this predicate is what keeps `2h -30min` or `1e3min` out.)"""
    fs = [g for g in F.find("metadata::parse_time_with_units") if not g.is_closure()]
    if len(fs) != 1:
        chk.fail("anchor-missing", "parse_time_with_units", "", "anchor-missing: metadata::parse_time_with_units not found")
        return
    f = fs[0]
    sa = calls_to(f, "<impl str>::split_at")
    chk.floor("C13.D6-number-part", "split_at calls", len(sa), 1, f"{f.file}:{f.line}")
    for b, t in sa:
        mid = arg_expr(f, t, 1)
        finds = [n for n in walk(mid) if n[0] == "call" and n[1].endswith("<impl str>::find")]
        clos = []
        for n in finds:
            for a in n[2]:
                for m in walk(a):
                    if m[0] == "agg" and m[1] == "closure":
                        clos.append(m[2])
        ok = False
        why = f"the split position is {full(mid)[:80]}"
        if len(clos) == 1 and clos[0] in F.funcs:
            g = F.funcs[clos[0]]
            calls = [(callee_key(tt) or "").rsplit("::", 1)[-1] for _, tt in g.calls()]
            cmps = [(st["rv"]["op"], (st["rv"]["r"].get("const") or {}).get("char")) for _, _, st in g.iter_stmts()
                    if st["k"] == "assign" and st["rv"]["k"] == "bin" and st["rv"]["op"] in ("Ne", "Eq")]
            nots = sum(1 for _, _, st in g.iter_stmts() if st["k"] == "assign" and st["rv"]["k"] == "un" and st["rv"]["op"] == "Not")
            # `!c.is_ascii_digit() && c != '.'`  or  `!(c.is_ascii_digit() || c == '.')`
            ok = calls == ["is_ascii_digit"] and (cmps == [("Ne", ".")] or (cmps == [("Eq", ".")] and nots >= 1))
            why = f"the boundary predicate calls {calls} and compares {cmps}"
        chk.expect(ok, "C13.D6-number-part", "parse_time_with_units|boundary predicate", f.where(b),
                   "the number part of a number-unit pair is no longer cut at the first character that is neither an ASCII digit nor '.': " + why +
                   " — signed or exponent forms would be read as numbers", sample=f"{f.where(b)}: split_at(find(|c| !c.is_ascii_digit() && c != '.'))")


def d5_strict(chk, F):
    """'A value outside the documented forms gives a warning at parse time and nothing from the accessor': the parse-time
    validator check_std_entry and everything it reaches interpret values through the Result-returning value_as_* functions;
    the Option-returning accessors (value_as_*(..).ok()) discard the error and may only be used by the public accessors."""
    import c09
    from flow import leaves
    lossy = {}
    for k, g in F.funcs.items():
        if g.crate != "cooklang" or g.is_closure() or "metadata" not in k:
            continue
        try:
            e = c09.return_expr(g)
        except Exception:
            continue
        if isinstance(e, tuple) and e[0] == "call" and e[1].endswith("Result::<T, E>::ok") and any("metadata::value_as_" in l for l in leaves(e)):
            lossy[k] = g
    chk.floor("C13.D5-strict", "error-discarding accessors (value_as_*(..).ok())", len(lossy), 4)
    entry = [k for k in F.funcs if k.endswith("metadata::check_std_entry")]
    if len(entry) != 1:
        chk.fail("anchor-missing", "check_std_entry", "", "anchor-missing: metadata::check_std_entry not found")
        return
    reach = F.reach(entry)
    bad = sorted(k for k in reach if k in lossy)
    # witness: who calls it inside the reach
    via = ""
    if bad:
        for g, kind, b, t in F.callers_of(bad[0]):
            if g.key in reach:
                via = f" (called from {g.key.split('metadata::')[-1]} at {g.where(b)})"
                break
    chk.expect(not bad, "C13.D5-strict", "check_std_entry|no lossy accessor", via.split(" at ")[-1].rstrip(")") if via else "",
               f"the parse-time validator reaches the error-discarding accessor {bad[0].split('::')[-1] if bad else ''}{via}: an invalid nested value is dropped "
               "silently — no warning, and the accessor returns a partial value",
               sample=f"check_std_entry reaches {len([k for k in reach if 'metadata' in k])} metadata functions, none of the {len(lossy)} lossy accessors")


def d4_tags(chk, F):
    """Tags are the non-empty, de-duplicated entries: value_as_tags returns a vector it builds itself, and every element
    enters it through a push that lies under the `false` outcome of is_empty() on the entry and of contains() on the
    vector built so far (a set-insert test is accepted as well)."""
    from cfgq import calls_to, call_result_edges
    from flow import resolve, leaves, show
    fs = [g for g in F.find("metadata::value_as_tags") if not g.is_closure()]
    if len(fs) != 1:
        chk.fail("anchor-missing", "value_as_tags", "", "anchor-missing: metadata::value_as_tags not found")
        return
    f = fs[0]
    oks = []
    for i, j, st in f.iter_stmts():
        rv = st.get("rv", {})
        if rv.get("k") == "agg" and rv.get("agg") == "adt" and norm(rv["adt"]).endswith("result::Result") and rv["variant"] == "Ok":
            oks.append((i, st, resolve(f, rv["ops"][0])))
    chk.floor("C13.D4-tags", "Ok(..) returns of value_as_tags", len(oks), 1, f"{f.file}:{f.line}")
    FRESH = ("Vec::<T>::with_capacity", "Vec::<T>::new", "Vec::with_capacity", "Vec::new")
    for i, st, e in oks:
        calls = [l[5:] for l in leaves(e) if l.startswith("call:")]
        fresh = e[0] == "call" and any(e[1].endswith(x) for x in FRESH)
        chk.expect(fresh, "C13.D4-tags", "value_as_tags|returned vector", f"{f.file}:{st.get('line')}",
                   f"value_as_tags returns {show(e, -50)[:120]} instead of a vector it fills entry by entry under the empty / already-present tests "
                   "(Vec::dedup only removes adjacent repeats)", sample=f"{f.file}:{st.get('line')}: returns the freshly built `tags` vector")
    pushes = [(b, t) for b, t in f.calls() if (callee_key(t) or "").endswith(("Vec::<T, A>::push", "Vec::<T, A>::insert", "Vec::<T, A>::extend", "Vec::<T, A>::append"))
              or (callee_key(t) or "").endswith("Extend<T>>::extend")]
    chk.floor("C13.D4-tags", "pushes into the tag vector", len(pushes), 1, f"{f.file}:{f.line}")
    empt = [b for b, t in f.calls() if (callee_key(t) or "").endswith(("str>::is_empty", "String::is_empty"))]
    cont = [b for b, t in f.calls() if (callee_key(t) or "").endswith(("[T]>::contains", "HashSet::<T, S>::contains", "BTreeSet::<T, A>::contains"))]
    sins = [b for b, t in f.calls() if (callee_key(t) or "").endswith(("HashSet::<T, S>::insert", "BTreeSet::<T, A>::insert"))]
    for b, t in pushes:
        ck = (callee_key(t) or "").rsplit("::", 1)[-1]
        ne = any(f.edge_dominates(e_, b) for x in empt for e_ in call_result_edges(f, x)[1])
        nd = any(f.edge_dominates(e_, b) for x in cont for e_ in call_result_edges(f, x)[1]) or \
            any(f.edge_dominates(e_, b) for x in sins for e_ in call_result_edges(f, x)[0])
        chk.expect(ck == "push" and ne and nd, "C13.D4-tags", f"value_as_tags|{ck}", f.where(b),
                   f"a tag enters the result through `{ck}` without the non-empty test ({ne}) and the not-yet-present test ({nd}) on every path",
                   sample=f"{f.where(b)}: push under !is_empty() && !contains()")


def d1_siblings(chk, F):
    g = F.funcs.get(M + "check_std_entry")
    if g is None:
        chk.fail("anchor-missing", "check_std_entry", "", "anchor-missing: metadata::check_std_entry not found")
        return
    for key, (checker, accessor, target) in SIBLINGS.items():
        arms = variant_arm_blocks(g, "metadata::StdKey", key)
        called = set()
        for sb, tgt in arms:
            for b, t in g.calls():
                if g.node_dominates(tgt, b):
                    called.add((callee_key(t) or "").rsplit("::", 1)[-1])
        where = f"{g.file}:{g.line}"
        if not arms:
            chk.fail("anchor-missing", f"check_std_entry|{key}", where, f"anchor-missing: no arm for StdKey::{key} in check_std_entry")
            continue
        chk.expect(checker in called, "C13.D1-siblings", f"check|{key}", where,
                   f"the parse-time check of `{key}` calls {sorted(called) or 'nothing'} instead of {checker}: values the accessor refuses would not be warned about",
                   sample=f"check_std_entry[{key}] → {checker}")
        acc = F.funcs.get(M + "Metadata::" + accessor)
        if acc is None:
            chk.fail("anchor-missing", f"Metadata::{accessor}", "", f"anchor-missing: accessor Metadata::{accessor} not found")
            continue
        reach = F.reach([acc.key])
        chk.expect(target in reach, "C13.D1-siblings", f"accessor|{key}", f"{acc.file}:{acc.line}",
                   f"Metadata::{accessor}() does not reach {target.split('::')[-1]}, the interpretation the parse-time check of `{key}` uses: "
                   "accessor and validator can disagree", sample=f"Metadata::{accessor}() reaches {target.split('::')[-1]}")
        # the accessor reads this key
        keys_read = set()
        for h in F.region_funcs(acc.key):
            for b, t in h.calls():
                if (callee_key(t) or "").endswith("Metadata::get"):
                    e = arg_expr(h, t, 1)
                    for n in walk(e):
                        if n[0] == "agg" and n[2].endswith("metadata::StdKey"):
                            keys_read.add(n[3])
        chk.expect(key in keys_read, "C13.D1-siblings", f"accessor-key|{key}", f"{acc.file}:{acc.line}",
                   f"Metadata::{accessor}() reads {sorted(keys_read)}, not StdKey::{key}", sample=f"Metadata::{accessor}() reads StdKey::{key}")
    # both metadata styles run the check and keep the servings
    R = "cooklang::analysis::event_consumer::RecipeCollector::"
    for name in ("process_frontmatter", "metadata"):
        f = F.funcs.get(R + name)
        if f is None:
            chk.fail("anchor-missing", R + name, "", f"anchor-missing: {name} not found")
            continue
        cs = calls_to(f, "metadata::check_std_entry")
        ok = len(cs) == 1 and has_field(arg_leaves(f, cs[0][1], 2), ".converter")
        chk.expect(ok, "C13.D1-siblings", f"{name}|check call", f"{f.file}:{f.line}",
                   f"{name}() must validate standard keys with check_std_entry(.., self.converter) ({len(cs)} call(s))",
                   sample=f"{name}(): check_std_entry(key, value, self.converter)")
        ws = [(ff, i, s) for ff, i, s in assigns_to_field(F, R + name, "data") if ".content" in s["place"]["p"]]
        okw = False
        for ff, i, s in ws:
            from flow import resolve_rvalue
            e = resolve_rvalue(ff, s["rv"], 0, frozenset(), i)
            if any(l.endswith("check_std_entry") for l in leaves(e)):
                okw = True
        chk.expect(okw, "C13.D1-siblings", f"{name}|servings stored", f"{f.file}:{f.line}",
                   f"{name}() no longer stores the servings returned by check_std_entry into content.data (scaling would ignore declared servings)",
                   sample=f"{name}(): content.data = servings from check_std_entry")


def d3_servings(chk, F):
    f = F.funcs.get(M + "value_as_servings")
    if f is None:
        chk.fail("anchor-missing", "value_as_servings", "", "anchor-missing: value_as_servings not found")
        return
    # the returned vector: Ok(x) aggregates assigned to _0
    returned = set()
    for i, j, s in f.iter_stmts():
        rv = s.get("rv", {})
        if s["k"] == "assign" and s["place"]["l"] == 0 and rv.get("k") == "agg" and rv.get("variant") == "Ok":
            p = rv["ops"][0].get("move") or rv["ops"][0].get("copy")
            if p is not None and not p["p"]:
                nm = _source_name(f, p["l"])
                if nm:
                    returned.add(nm)
    if not returned:
        chk.fail("anchor-missing", "value_as_servings|Ok", f"{f.file}:{f.line}", "anchor-missing: no Ok(<vector variable>) return in value_as_servings")
        return
    sorts = []
    for b, t in f.calls():
        ck = callee_key(t) or ""
        last = ck.rsplit("::", 1)[-1]
        if not t.get("args"):
            continue
        recv = _recv_var(f, t["args"][0])
        if last in MUTATORS and ("Vec::" in ck or "[T]>::" in ck):
            where = f.where(b)
            if recv in returned:
                chk.fail("C13.D3-servings", f"value_as_servings|{last} on returned", where,
                         f"`{recv}.{last}(..)` changes the order or content of the servings list that is returned: the first declared servings is what scaling uses as base")
            else:
                chk.ok("C13.D3-servings", f"value_as_servings|{last} on {recv or 'temporary'}", f"{where}: {last} on `{recv or 'a temporary copy'}`, not on the returned list")
            if last.startswith("sort"):
                sorts.append((b, recv, full(arg_expr(f, t, 0))))
    dups = [(b, t) for b, t in f.calls() if (callee_key(t) or "").rsplit("::", 1)[-1] in ("dedup", "dedup_by", "dedup_by_key", "windows", "is_sorted")]
    for b, t in dups:
        recv = _recv_var(f, t["args"][0])
        rtxt = full(arg_expr(f, t, 0))
        ok = any((sr == recv and recv is not None or _same_base(stxt, rtxt)) and f.node_dominates(sb, b) for sb, sr, stxt in sorts)
        chk.expect(ok, "C13.D3-servings", f"value_as_servings|adjacent-duplicate test on {recv or 'temporary'}", f.where(b),
                   "duplicates are looked for among adjacent elements of a list that was not sorted first: `2|4|2` would be accepted",
                   sample=f"{f.where(b)}: adjacent-duplicate test runs on a sorted copy")
    errs = [1 for i, j, s in f.iter_stmts() if s.get("rv", {}).get("k") == "agg" and s["rv"].get("variant") == "DuplicateServings"]
    chk.expect(bool(errs) and bool(dups), "C13.D3-servings", "value_as_servings|duplicates refused", f"{f.file}:{f.line}",
               "value_as_servings no longer has a duplicate test leading to MetadataError::DuplicateServings", sample="duplicate servings → DuplicateServings error")


def _same_base(a, b):
    """both receivers are the same clone expression (temporaries without a debug name)"""
    core = lambda s: re.sub(r"^&|\(\*DerefMut>::deref_mut\(&|\)\)$", "", s)
    return core(a) == core(b) or core(a) in b or core(b) in a


def _source_name(f, l):
    for _ in range(6):
        if f.local_name(l):
            return f.local_name(l)
        ds = f.defs.get(l, [])
        if len(ds) != 1 or ds[0][0] != "stmt" or ds[0][3]["rv"]["k"] != "use":
            return None
        o = ds[0][3]["rv"]["op"]
        p = o.get("move") or o.get("copy")
        if p is None or p["p"]:
            return None
        l = p["l"]
    return None


def _recv_var(f, op):
    """variable a `&mut v` / `&v` receiver (possibly through deref_mut) refers to"""
    e = resolve(f, op)
    for _ in range(8):
        if e[0] == "ref":
            e = e[1]
        elif e[0] == "place":
            e = e[1]
        elif e[0] == "call" and e[1].endswith(("deref_mut", "deref", "as_mut_slice", "as_slice")) and e[2]:
            e = e[2][0]
        elif e[0] == "phi":
            return e[3]
        else:
            break
    p = op.get("move") or op.get("copy")
    # walk definitions to a named local
    cur = p
    for _ in range(8):
        if cur is None:
            return None
        if f.local_name(cur["l"]):
            return f.local_name(cur["l"])
        ds = f.defs.get(cur["l"], [])
        if len(ds) != 1:
            return None
        d = ds[0]
        if d[0] == "stmt":
            rv = d[3]["rv"]
            if rv["k"] in ("ref", "rawptr"):
                cur = rv["place"]
            elif rv["k"] == "use":
                cur = rv["op"].get("move") or rv["op"].get("copy")
            else:
                return None
        else:
            t = d[2]
            ck = callee_key(t) or ""
            if ck.endswith(("deref_mut", "deref")) and t.get("args"):
                cur = t["args"][0].get("move") or t["args"][0].get("copy")
            else:
                return None
    return None
