#!/usr/bin/env python3
"""tools/mkmut.py <PID> <name> <expect-substr> <file> <<< 'OLD\n====\nNEW'
Creates mutants/<PID>/<name>.patch by replacing OLD with NEW (exactly once) in <file> of the scratch worktree /tmp/mw."""
import subprocess, sys, os
pid, name, expect, path = sys.argv[1:5]
old, new = sys.stdin.read().split("\n====\n")
new = new.rstrip("\n")
old = old.rstrip("\n")
W = "/tmp/mw"
subprocess.run(["git", "-C", W, "checkout", "-q", "--", "."], check=True)
p = os.path.join(W, path)
s = open(p).read()
if s.count(old) != 1:
    print("OLD occurs", s.count(old), "times"); sys.exit(1)
open(p, "w").write(s.replace(old, new))
d = subprocess.run(["git", "-C", W, "diff"], stdout=subprocess.PIPE, text=True).stdout
os.makedirs(f"/verif/mutants/{pid}", exist_ok=True)
desc = os.environ.get("DESC", "")
with open(f"/verif/mutants/{pid}/{name}.patch", "w") as fh:
    fh.write(f"# property: {pid}\n# expect: {expect}\n# what: {desc}\n")
    fh.write(d)
subprocess.run(["git", "-C", W, "checkout", "-q", "--", "."], check=True)
print("wrote", f"mutants/{pid}/{name}.patch")
