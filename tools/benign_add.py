#!/usr/bin/env python3
"""tools/benign_add.py <name> <patch.diff> [description] — adopt an externally produced behaviour-preserving patch:
applies it to the scratch worktree /tmp/mw, runs the pinned test suite there, stores it as benign/<name>.patch and runs
every claimed check against it (./check benign with SELFTEST_ONLY=<name>)."""
import os, subprocess, sys
name, patch = sys.argv[1:3]
desc = sys.argv[3] if len(sys.argv) > 3 else ""
W = "/tmp/mw"
subprocess.run(["git", "-C", W, "checkout", "-q", "--", "."], check=True)
r = subprocess.run(["git", "-C", W, "apply", patch])
if r.returncode != 0:
    sys.exit("patch does not apply")
env = dict(os.environ, CARGO_NET_OFFLINE="true", CARGO_TARGET_DIR="/tmp/mw-target")
r = subprocess.run("cargo test --workspace --no-fail-fast --offline -q", shell=True, cwd=W, env=env, stdout=subprocess.PIPE, stderr=subprocess.STDOUT, text=True)
if r.returncode != 0:
    print(r.stdout[-2000:])
    subprocess.run(["git", "-C", W, "checkout", "-q", "--", "."], check=True)
    sys.exit("tests fail with the patch")
d = subprocess.run(["git", "-C", W, "diff"], stdout=subprocess.PIPE, text=True).stdout
open(f"/verif/benign/{name}.patch", "w").write(f"# benign: {desc}\n" + d)
subprocess.run(["git", "-C", W, "checkout", "-q", "--", "."], check=True)
r = subprocess.run(["/verif/check", "benign"], cwd="/verif", env=dict(os.environ, SELFTEST_ONLY=name), stdout=subprocess.PIPE, stderr=subprocess.STDOUT, text=True)
print(r.stdout[-3000:])
