#!/usr/bin/env python3
"""Helper used while reviewing: print the current inventory as TOML skeletons (never run by a check)."""
import sys
sys.path.insert(0, '/verif/rules')
import harness, facts, inventory, c03
from collections import defaultdict
paths, th = harness.mir_facts('Q')
F = facts.Facts(paths)
what = sys.argv[1]
if what == 'panics':
    sites = [s for s in inventory.failure_sites(F) if not c03.is_box_deref_site(F, s)]
    g = inventory.group(sites)
    for (r, k, d), v in sorted(g.items()):
        print('[[site]]')
        print(f'function = "{r}"')
        print(f'kind = "{k}"')
        print(f'detail = "{d}"')
        print(f'count = {len(v)}')
        print(f'verdict = "discharged"')
        print(f'reason = "TODO {",".join(s["where"].replace("/repo/","") for s in v)}"')
        print()
elif what == 'arith':
    g = defaultdict(list)
    for s in c03.arith_sites(F):
        g[(s['region'], s['kind'], s['detail'])].append(s)
    for (r, k, d), v in sorted(g.items()):
        print('[[site]]')
        print(f'function = "{r}"')
        print(f'kind = "{k}"')
        print(f'detail = "{d}"')
        print(f'count = {len(v)}')
        print(f'reason = "TODO {",".join(s["where"].replace("/repo/","") for s in v)}"')
        print()
