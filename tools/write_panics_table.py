#!/usr/bin/env python3
"""One-off: writes tables/panics.toml from the current inventory and tools/panics_reasons.py.
Refuses to write an entry without a reviewed reason."""
import sys
sys.path.insert(0, '/verif/rules'); sys.path.insert(0, '/verif/tools')
import harness, facts, inventory, c03
from panics_reasons import R, REQ
paths, th = harness.mir_facts('Q')
F = facts.Facts(paths)
sites = [s for s in inventory.failure_sites(F) if not c03.is_box_deref_site(F, s)]
g = inventory.group(sites)
out = ["# C03.D1 — reviewed inventory of explicit failure sites (cooklang + cooklang-bindings, library targets).",
       "# key = (function region, kind, detail); count is a ceiling. verdict: discharged | documented | finding.",
       "# Checks never write this file.", ""]
missing = []
for (r, k, d), v in sorted(g.items()):
    if k == 'todo':
        continue
    hit = [(sfx, val) for (sfx, kk, dd), val in R.items() if kk == k and dd == d and (r.endswith(sfx))]
    if len(hit) != 1:
        missing.append((r, k, d, len(hit)))
        continue
    verdict, reason = hit[0][1]
    extra = []
    rq = [val for (sfx, kk, dd), val in REQ.items() if kk == k and dd == d and r.endswith(sfx)]
    if rq and rq[0]:
        extra.append("requires = [" + ", ".join('"%s"' % x for x in rq[0]) + "]")
    if verdict.startswith("finding:"):
        extra.append(f'finding_for = "{verdict.split(":")[1]}"')
        verdict = "discharged"
    out += ["[[site]]", f'function = "{r}"', f'kind = "{k}"', f'detail = "{d}"', f"count = {len(v)}",
            f'verdict = "{verdict}"'] + extra + ['reason = """' + reason.replace('\\', '\\\\') + '"""', ""]
if missing:
    print("MISSING", *missing, sep="\n  ")
    sys.exit(1)
open('/verif/tables/panics.toml', 'w').write("\n".join(out))
print("written", len(g))
