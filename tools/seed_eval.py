#!/usr/bin/env python3
"""tools/seed_eval.py <seed-id> <property> [src-dir]
Confirms a seeded change (compiles, suite green, demo fails with / passes without) in a scratch copy
outside /repo and /verif, runs the property's check against it, stores it under /verif/seeded/<seed-id>/."""
import json, os, shutil, subprocess, sys, time
sid, pid = sys.argv[1], sys.argv[2]
src = sys.argv[3] if len(sys.argv) > 3 else f"/tmp/seed/{sid}-out"
also = sys.argv[4].split(",") if len(sys.argv) > 4 else []
VER = "/verif"
scratch = f"/tmp/seedcheck/{sid}"
os.makedirs("/tmp/seedcheck", exist_ok=True)
shutil.rmtree(scratch, ignore_errors=True)
# no -t: fresh mtimes, otherwise cargo reuses artifacts built from a previous (patched) copy at the same path
subprocess.run(["rsync", "-rlp", "--exclude", "target", "--exclude", ".git", "/repo/", scratch + "/"], check=True)
env = dict(os.environ, CARGO_TARGET_DIR=os.environ.get("SEED_TARGET", "/tmp/seedcheck/target"), CARGO_NET_OFFLINE="true")
def sh(cmd, **kw):
    r = subprocess.run(cmd, cwd=scratch, env=env, stdout=subprocess.PIPE, stderr=subprocess.STDOUT, text=True, **kw)
    return r.returncode, r.stdout
patch = os.path.join(src, "patch.diff")
demo = os.path.join(src, "demo.rs")
notes = open(os.path.join(src, "notes.md")).read() if os.path.exists(os.path.join(src, "notes.md")) else (json.load(open(os.path.join(src, "meta.json"))).get("notes", "") if os.path.exists(os.path.join(src, "meta.json")) else "")
ptxt = open(patch).read()
bind = "bindings/tests" in notes or "cooklang_bindings" in open(demo).read()
demo_dst = os.path.join(scratch, "bindings/tests/seed_demo.rs" if bind else "tests/seed_demo.rs")
os.makedirs(os.path.dirname(demo_dst), exist_ok=True)
pkg = ["-p", "cooklang-bindings"] if bind else ["-p", "cooklang"]
res = {"seed": sid, "property": pid}
shutil.copy(demo, demo_dst)
rc, out = sh(["cargo", "test", "--offline"] + pkg + ["--test", "seed_demo"])
res["demo_on_original"] = "pass" if rc == 0 else "FAIL"
os.remove(demo_dst)
rc, out = sh(["git", "apply", "--unsafe-paths", "-p1", patch]) if False else sh(["patch", "-p1", "-s", "--no-backup-if-mismatch", "-i", patch])
res["patch_applies"] = rc == 0
if rc != 0:
    print(out)
rc, out = sh(["cargo", "test", "--workspace", "--offline", "--no-fail-fast"])
res["suite_with_change"] = "pass" if rc == 0 else "FAIL"
if rc != 0:
    print(out[-1500:])
shutil.copy(demo, demo_dst)
rc, out = sh(["cargo", "test", "--offline"] + pkg + ["--test", "seed_demo"])
res["demo_with_change"] = "fail (as required)" if rc != 0 else "PASSES (bad)"
os.remove(demo_dst)
checks = {}
for p in [pid] + also:
    e = dict(os.environ, VERIF_REPO=scratch, VERIF_EVIDENCE_DIR=os.path.join(scratch, ".evidence"))
    r = subprocess.run([os.path.join(VER, "check"), p], cwd=VER, env=e, stdout=subprocess.PIPE, stderr=subprocess.STDOUT, text=True)
    fired = [l.strip() for l in r.stdout.splitlines() if l.strip().startswith("[")]
    checks[p] = {"exit": r.returncode, "fired": fired[:5]}
res["checks"] = checks
res["caught_by"] = [p for p, c in checks.items() if c["exit"] == 1]
confirmed = res["demo_on_original"] == "pass" and res["patch_applies"] and res["suite_with_change"] == "pass" and res["demo_with_change"].startswith("fail")
res["confirmed"] = confirmed
print(json.dumps(res, indent=1))
if confirmed:
    d = os.path.join(VER, "seeded", sid)
    os.makedirs(d, exist_ok=True)
    if os.path.abspath(src) != os.path.abspath(d):
        shutil.copy(patch, os.path.join(d, "patch.diff"))
        shutil.copy(demo, os.path.join(d, "demo.rs"))
    prev = {}
    if os.path.exists(os.path.join(d, "meta.json")):
        try:
            prev = json.load(open(os.path.join(d, "meta.json")))
        except Exception:
            prev = {}
    meta = {"id": sid, "property": pid, "source": "independent sub-agent given only the property text and a scratch worktree",
            "needs_to_manifest": "see notes", "notes": notes[:4000],
            "confirmed": {k: res[k] for k in ("demo_on_original", "suite_with_change", "demo_with_change")},
            "ran": ["cargo test --test seed_demo (original tree): pass", "cargo test --workspace --offline (with change): pass",
                    "cargo test --test seed_demo (with change): fail", f"VERIF_REPO=<scratch> ./check {pid}"],
            "detected_by": res["caught_by"], "check_output": checks,
            "first_run": prev.get("first_run", {"detected_by": res["caught_by"]}),
            "needs": prev.get("needs", "")}
    json.dump(meta, open(os.path.join(d, "meta.json"), "w"), indent=1)
shutil.rmtree(scratch, ignore_errors=True)
