#!/usr/bin/env python3
"""tools/mkbenign.py <name> <file> <<< 'OLD\n====\nNEW[\n@@@@\nOLD2\n====\nNEW2 ...]'
Creates benign/<name>.patch (behaviour-preserving edit) by replacing OLD with NEW (exactly once each) in <file> of the
scratch worktree /tmp/mw, after confirming that the edited tree builds and passes the pinned test suite there."""
import subprocess, sys, os, json
name, path = sys.argv[1:3]
W = "/tmp/mw"
subprocess.run(["git", "-C", W, "checkout", "-q", "--", "."], check=True)
p = os.path.join(W, path)
s = open(p).read()
for chunk in sys.stdin.read().split("\n@@@@\n"):
    old, new = chunk.split("\n====\n")
    old, new = old.rstrip("\n"), new.rstrip("\n")
    if s.count(old) != 1:
        print("OLD occurs", s.count(old), "times:", old[:60]); sys.exit(1)
    s = s.replace(old, new)
open(p, "w").write(s)
if not os.environ.get("NOTEST"):
    cmd = "cargo test --workspace --no-fail-fast --offline -q"
    r = subprocess.run(cmd, shell=True, cwd=W, stdout=subprocess.PIPE, stderr=subprocess.STDOUT, text=True,
                       env=dict(os.environ, CARGO_NET_OFFLINE="true", CARGO_TARGET_DIR="/tmp/mw-target"))
    if r.returncode != 0:
        print(r.stdout[-3000:]); print("TESTS FAIL; not written")
        subprocess.run(["git", "-C", W, "checkout", "-q", "--", "."], check=True)
        sys.exit(1)
d = subprocess.run(["git", "-C", W, "diff"], stdout=subprocess.PIPE, text=True).stdout
desc = os.environ.get("DESC", "")
with open(f"/verif/benign/{name}.patch", "w") as fh:
    fh.write(f"# benign: {desc}\n")
    fh.write(d)
subprocess.run(["git", "-C", W, "checkout", "-q", "--", "."], check=True)
print("wrote", f"benign/{name}.patch")
