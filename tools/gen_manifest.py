#!/usr/bin/env python3
"""Writes /verif/MANIFEST.json from the per-property registry below (single source of truth)."""
import json, os
HERE = os.path.dirname(os.path.dirname(os.path.abspath(__file__)))
props = [json.loads(l) for l in open(os.path.join(HERE, "properties.jsonl"))]

TRUST = ("rustc's MIR construction, trait resolution and const evaluation (nightly, dev profile); std and third-party crates summarised "
         "by def path; derive/attribute macro output trusted by origin; tables/*.toml hold the reviewed instances. Decides structural "
         "necessary conditions only: a tree can satisfy every rule and still compute a wrong value.")

CLAIMED = {
 "C04": dict(technique="offset provenance by backward slicing to a fixed point over parameters, offset-holding fields and helper functions + slice/offset agreement of fragment constructions + token tiling formula",
             text="Decides that every offset reaching a Span/Text/TextFragment constructor is built only from token and text boundaries, string lengths and search results (each ± constant, subtraction, cast or foreign index is a reviewed entry), that fragments created from input slices carry the slice's own lower bound, and that token spans are (consumed before, consumed after += lexer length). Reviewed ±1 adjustments carry machine-checked requirements on the code they rely on (e.g. the note offset is taken right after `(`). The parser is started on the caller's own string (no stripped or trimmed copy), so offsets index what the caller holds. This rules out the ±1-byte class that ASCII tests cannot see; start <= end, bounds, event order and successful rendering follow only under the assumption that the lexer advances by whole chars.",
             ref="DESIGN.md §5 C04"),
 "C08": dict(technique="constant-argument and dominance rule for Linear values + per-outcome value lineage of Scale::scale + formula shape of linear_scale / scale_to_servings + field-to-field move lineage of every scaled structure",
             text="Decides which values can be Linear (only ingredient, non-text, non-locked quantities), that Fixed and failed values pass through scale() untouched and default_scale returns the written value, that number / range start / range end are each multiplied by the factor and the servings factor is target / first declared servings, that everything scaling must not touch is a move of the same-named input field and outcome vectors line up with their components, that cookware is never fitted, and that the declared servings order is preserved. That a fitted range has both ends converted, that a fitted/converted quantity gets number and unit in one write from the same conversion result, and that best units come from the designated list are decided (shared with C09); that fitting preserves the amount otherwise is C09/C12 material; finiteness is not decided.",
             ref="DESIGN.md §5 C08"),
 "C19": dict(technique="kind / field lineage of the FFI mirror on the MIR of the bindings crate (aggregate field sources, push/extend receivers by variable, merge-arm operand pairing)",
             text="Decides that reference kinds, indices, names, amounts, units and notes of the simplified recipe are taken from the same-kind / same-named parts of the core recipe, that dereferencing uses the same-kind vector with the given index, that grouping keys carry the value's own variant, that merging looks the bucket up by the incoming key and adds incoming into stored field by field, and that combine_ingredients is the selection over all indices folding each once. Numerical sums and map order are not decided.",
             ref="DESIGN.md §5 C19"),
 "C07": dict(technique="catalogue inventory of diagnostic constructions + forward def-use to a sink + stage/severity constants + shape of the parse-error short circuit and of the validity predicate",
             text="Weak: decides that no catalogued check was deleted or downgraded (per-module floors), that every constructed diagnostic reaches a sink with the matching severity and the stage of its module, that a parse-stage error returns no output and keeps only parse diagnostics while other paths keep the output, that validity is has_output and no errors, that parsed fractions pass the zero-denominator rejection, and that the out-of-range test of an intermediate reference is the emptiness of the step-filtered n-th lookup / a comparison with the number of finished sections, and that the emptiness predicate behind the empty-name/unit/key/value checks examines every fragment, that the forbidden-modifier sets are the reviewed ones, and that the primary label stays labels[0] (constructors start with it, the list is only pushed to). It does not decide that a check fires on the right condition, that well-formed recipes are diagnostic-free, or where labels point.",
             ref="DESIGN.md §5 C07"),
 "C13": dict(technique="sibling agreement between the parse-time validator and the accessors (call-graph reach per StdKey arm) + integer arithmetic discipline + mutation/ordering rule on the servings list",
             text="Partial: decides that each standard key is validated at parse time by the interpretation function its accessor uses and that both metadata styles run it and store servings; that the duration parsers' integer arithmetic is the reviewed, checked set; that the servings list is returned in declaration order and its duplicate test runs on a sorted copy; that tags enter the result only under the non-empty and not-yet-present tests; that parse-time validation never goes through an error-discarding accessor; that the number of a number-unit duration is the leading run of digits and '.'; that the by-name minutes unit of a user converter is tested to be a Time unit. What each parser accepts is not decided.",
             ref="DESIGN.md §5 C13"),
 "C14": dict(technique="argument lineage of the two parse entry points + must-pass-through of every parsed metadata entry to the event queue + purity of the projection",
             text="Weak: decides that both entry points build the same parser, share the entry parser metadata_entry, emit every entry it returns, run the same analysis with the same extensions/converter/options on every path (no early return that bypasses the scanner), and that the metadata result is the untouched metadata field. That both scanners decide 'a `>>` at the start of a line' from the token stream in the same way (previous token is a Newline token, peeked token is MetadataStart; lines end at the Newline token and nowhere else, never judged from the input text) and the single-line flag of a block is that of its first non-empty line, is decided; that they select the same lines in every other respect (multi-line blocks, config keys under MODES) is not.",
             ref="DESIGN.md §5 C14"),
 "C06": dict(technique="pairing / ordering / lineage rules on the MIR of the analysis collector (must-pass-through, edge dominance, value lineage by backward slicing)",
             text="Decides structural necessary conditions of referential consistency: step item indices come from the same-kind collector method which returns len(table)-1 of the table it pushed to; content and location tables are pushed in lock-step; references are set from a search that excludes references, and listed back exactly once before the push; the step counter is reset per section and bumped per pushed step; empty sections are not pushed; intermediate references are bounds-checked and step-filtered; every component made a reference also receives the REF modifier and is reported to the caller (which adds the back link); a timer without a name is built only where its quantity is known to be present; text items are built only under a non-empty test of their value (analysis side) or of the parsed text (step parser side). Name equality, document order and emptiness of steps are not decided.",
             ref="DESIGN.md §5 C06"),
 "C10": dict(technique="must-pass-through store analysis of GroupedQuantity::add / GroupedValue::add, field-coverage of readers, insert-result usage, lineage of the listing pipeline, formula shape of Value::try_add",
             text="Decides that no path through the grouping functions drops its argument, that every reader of a grouped quantity covers all four stores, that quantity-map inserts cannot silently overwrite (one reviewed finding), that a text value can never be stored into a running total, that the common unit of an addition is the left operand's, and that totals are built from the definition plus its referenced_from entries, definitions only, listed-only, keyed by display name. Numerical sums and fit() are not decided.",
             ref="DESIGN.md §5 C10"),
 "C11": dict(technique="C03 inventories restricted to the aisle module + lookup/insert pairing by dominance and key-expression equality + span formula shape + value lineage of the lookup map + writer/reader delimiter agreement from decoded format templates",
             text="Partial: decides the totality clause (reviewed failure sites, arithmetic and loops of the aisle parser/writer), that each insertion into a duplicate-detection set is confined to the not-found outcome of a lookup of the same key with the stored value trimmed like the checked one, and that every error span is directly the pointer-offset span of one sub-slice of the input (no other Span is built in the parser). Lookup: every IngredientInfo takes the first name of its line as common name, the enclosing category, and is stored under the iterated name. The writer's delimiters and line ends are exactly what the parser strips and splits on (a necessary condition of the round trip), comments start at the first `//`, and the writer prints stored names verbatim; the round trip itself is not decided.",
             ref="DESIGN.md §5 C11"),
 "C12": dict(technique="rational-function identity between the writer (new_approx) and the reader (Number::value) + edge-dominance of every Some(Fraction) by its limit checks + format templates of Display decoded from MIR constants + shape of the lookup-table constructor",
             text="Partial: decides that value() of every fraction new_approx can return is the approximated input as a symbolic identity, that each returned fraction is dominated by the positive/finite, whole<=max_whole and |err|<=accuracy*value tests, that the fractional part comes from the max_den-bounded lookup, that configured limits are clamped, that the printed forms are exactly `w`, `n/d`, `w n/d` with a component omitted only when it is zero, and that the table holds numerators 1..den keyed by n/d. Nearest-fraction choice and all numerics are not decided.",
             ref="DESIGN.md §5 C12"),
 "C09": dict(technique="data check of the shipped unit table against an independent reference + rational-function shape analysis of the conversion formula on MIR + guard dominance + argument lineage",
             text="Decides: units.toml (and the constants compiled from it) agree with the international unit definitions; convert_f64 is the affine formula with from/to in the right roles as a rational function; range ends are both converted; conversion is dominated by the same-quantity test and convert_impl fails before mutating; best units come from the designated list of the requested system; SI-prefixed units are the base unit scaled by the prefix and are regenerated whole when a layer edits the base. The converter's input is Number::value() (error included). The fraction a fit stores satisfies the C12 identity and limit guards (shared). Threshold selection and float tolerance are not decided.",
             ref="DESIGN.md §5 C09"),
 "C15": dict(technique="serde derive/attribute symmetry lint over the compiler-resolved type-reachability closure of Recipe (attributes read with syn)",
             text="Decides that no type reachable from a recipe uses a serde construct known to break JSON round trips (derive pairing, one-sided attributes, skip/skip_serializing_if without default, internal tagging over non-map variants, flatten collisions, untagged ambiguity, duplicate names, non-string map keys, nested Options, borrowed strings, manual impls). Hand-written PartialEq impls of recipe types are plain `f(self) == f(other)`. Necessary conditions of round-trip equality; serde_json's own behaviour is trusted.",
             ref="DESIGN.md §5 C15"),
 "C16": dict(technique="C03 inventories restricted to the builder's call-graph reach + insert-result usage + path-sensitive guard reachability + dominance/ordering rules on the extend and finish pipeline + data consistency check of units.toml + build.rs key agreement",
             text="Partial: decides that the builder's explicit failure sites / arithmetic / loops are the reviewed ones, that every index insertion is duplicate-checked or a reviewed override, that empty best lists cannot reach the store, that the shipped units file is collision-free and self-consistent, that build.rs reads every key the file uses, that re-indexing removes old keys before an edit and re-adds after, that aliases of regenerated units are carried over, that generated units are regenerated whole, and that finish() computes best lists and fraction settings only after the extend layers were applied. Every join takes data and precedence from the same incoming layer into the same-named field, the two join helpers implement Before/After/Override arm by arm, every quantity group's best list is examined whether or not the group declares units, and each layer's extend block is kept as its own group. Threshold values are not decided.",
             ref="DESIGN.md §5 C16"),
 "C02": dict(technique="gate-dominance analysis on MIR (edge dominators, bool::then closures, call-site propagation) + confinement inventory of Extensions reads + argument lineage + const-evaluated bit layout",
             text="Decides four structural necessary conditions of extension independence: each construct that implements an extension's special reading is dominated by the flag-set outcome of a test of its own flag; the control-relevant reads of an Extensions value are exactly the reviewed gate sites; the extension set handed to sub-parsers and the analysis is the configured one; flag bits are disjoint as documented; every text item of a step, in the INLINE_QUANTITIES arm and in the plain arm, is cut from the same joined text; range operands are the two sides of one cut. It does not decide that gated code is a no-op on core syntax (a parse result).",
             ref="DESIGN.md §5 C02"),
 "C03": dict(technique="MIR inventories of failure sites, integer arithmetic, index/slice sites and panicking std API calls with machine-checked discharge conditions (guard dominance, ordering, modular-counter discipline) + must-pass-through progress analysis of every loop and recursion cycle",
             text="Decides that the set of ways the two library crates can fail to return (explicit panics/asserts/unwraps, unsafe operations, overflowing narrow-integer arithmetic and usize subtraction, index and slice accesses, loops and recursion without a progress construct) is exactly the reviewed set: every site is enumerated on the MIR of the current tree and must match tables/panics.toml, narrow_arith.toml, index_sites.toml, progress.toml, and where the invariant that makes a site safe is a local dominance fact it is re-verified on every run; todo!() is never acceptable; token slices handed to slice_str/text/float are never filtered copies (debug_assert_adjacent); every offset that reaches a diagnostic label has an accepted provenance (report rendering panics otherwise; shared with C04.D1). It does not decide that a guard condition is numerically right, usize additions, stack depth or dependency internals.",
             ref="DESIGN.md §5 C03"),
 "C18": dict(technique="effect analysis over the resolved call graph (statics, interior mutability, hash iteration, ambient inputs incl. calls into dependencies with process-wide switches, pointer identity, unsafe) + type-reachability of parser state",
             text="Decides that no function reachable from the parse entry points contains a source of hidden state or nondeterminism and that the parser type holds no shared writable state (Freeze, Send+Sync, &self entry points). This is the whole structural content of the property; what remains is the trusted base (dependencies summarised as pure, user closures).",
             ref="DESIGN.md §5 C18"),
}
NA = {
 "C01": "round-trip equality over all recipes and spellings is a run-time value property; static analysis has no sound abstraction of the lexer/parser's accepted language within reach (DESIGN.md §5 C01)",
 "C05": "a conservation law between input bytes and the union of emitted event spans; which bytes a block parser covers depends on token kinds at run time and no dataflow abstraction in reach relates consumed tokens to emitted spans (DESIGN.md §5 C05)",
 "C17": "a metamorphic relation between two parse results; the only shape facts (newline tokenisation, comment skipping) could be pinned only as frozen source fragments (DESIGN.md §5 C17)",
}
PENDING = "rule designed in DESIGN.md but its check is not built yet in this round — not claimed until it exists"

checks = []
na = []
for p in props:
    pid = p["id"]
    if pid in CLAIMED and os.path.exists(os.path.join(HERE, "rules", pid.lower() + ".py")):
        c = CLAIMED[pid]
        checks.append({
            "property_id": pid,
            "quick_cmd": f"./check {pid} --tier quick",
            "thorough_cmd": f"./check {pid} --tier thorough",
            "evidence_file": f"evidence/{pid}.json",
            "replay_cmd_template": f"./check {pid} --replay {{path}}",
            "engine": "mirfacts+rules",
            "level_claimed": {"category": "other", "text": c["text"], "design_ref": c["ref"]},
            "level_note": TRUST,
            "technique": "static analysis: " + c["technique"],
        })
    else:
        na.append({"property_id": pid, "reason": NA.get(pid, PENDING)})

m = {
 "version": 1,
 "setup_cmd": "./setup.sh",
 "hooks": {"guard": "cooklang_verif", "enable": "none — static analysis needs no instrumentation; no hook commits exist, checks build /repo unmodified with cargo +nightly check",
           "baseline_off_cmd": "cd /repo && cargo test --workspace --no-fail-fast --offline", "source_commits": [], "add_only": True},
 "engines": [
  {"name": "mirfacts", "path": "engines/mirfacts", "serves_properties": sorted(CLAIMED), "kind_free_text": "rustc_private driver (nightly) dumping MIR CFGs with resolved callees, field names, constants and macro backtraces of every workspace member, injected with RUSTC_WORKSPACE_WRAPPER under cargo +nightly check"},
  {"name": "synfacts", "path": "engines/synfacts", "serves_properties": ["C15", "C16"], "kind_free_text": "syn 2 syntax-tree extractor for derive helper attributes (serde) and build.rs keys"},
  {"name": "rules", "path": "rules", "serves_properties": sorted(CLAIMED), "kind_free_text": "python3 rule modules deciding repository-specific static rules over the fact base (CFG dominance, path-sensitive reachability, backward slicing, call graph, MIR-level inlining for normalised views, format-template decoding); reviewed instances frozen in tables/*.toml"}],
 "checks": checks,
 "notes": "Technique family: static analysis only (no cooklang code is executed by any check). Every claimed property decides named structural necessary conditions, not the behaviour; see DESIGN.md. A rule that fails on the program as written is re-evaluated on normalised views of the same MIR (renames undone, freshly extracted helper functions and local closures inlined or attributed to their caller; rules/inline.py, tables/functions.txt) and is reported only if it fails there too; this never applies to a rule that passes as written. Known findings: known_findings.json. Self-tests: ./check selftest (mutants/), ./check benign (benign/, independent refactors, documented limitations in benign/KNOWN_LIMITATIONS.json), tools/seeds_all.py (seeded/).",
 "not_applicable": na,
}
json.dump(m, open(os.path.join(HERE, "MANIFEST.json"), "w"), indent=1)
print("claimed:", [c["property_id"] for c in checks], "not claimed:", [n["property_id"] for n in na])
