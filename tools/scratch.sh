#!/bin/bash
# tools/scratch.sh <patch> : scratch copy of /repo with the patch applied at /tmp/seedcheck/s ; prints the path
P=$(realpath "$1"); S=/tmp/seedcheck/s; rm -rf $S; mkdir -p /tmp/seedcheck; rsync -rlp --exclude target --exclude .git /repo/ $S/; (cd $S && patch -p1 -s --no-backup-if-mismatch -i "$P") && echo $S
