#!/usr/bin/env python3
"""tools/seeds_all.py [substr] — re-run, for every stored seeded change, the checks recorded in its meta.json as detecting it;
prints the seeds that are no longer detected by a recorded check (regression guard after rule / harness changes)."""
import glob, json, os, shutil, subprocess, sys
only = sys.argv[1] if len(sys.argv) > 1 else ""
lost = []
n = 0
for mp in sorted(glob.glob("/verif/seeded/*/meta.json")):
    sid = os.path.basename(os.path.dirname(mp))
    if only and only not in sid:
        continue
    m = json.load(open(mp))
    want = m.get("detected_by") or [m["property"]]
    scratch = f"/tmp/seedcheck/all-{sid}"
    shutil.rmtree(scratch, ignore_errors=True)
    os.makedirs("/tmp/seedcheck", exist_ok=True)
    subprocess.run(["rsync", "-rlp", "--exclude", "target", "--exclude", ".git", "/repo/", scratch + "/"], check=True)
    subprocess.run(["patch", "-p1", "-s", "--no-backup-if-mismatch", "-i", f"/verif/seeded/{sid}/patch.diff"], cwd=scratch, check=True)
    n += 1
    res = {}
    for p in want:
        e = dict(os.environ, VERIF_REPO=scratch, VERIF_EVIDENCE_DIR=os.path.join(scratch, ".evidence"))
        r = subprocess.run(["/verif/check", p], cwd="/verif", env=e, stdout=subprocess.PIPE, stderr=subprocess.STDOUT, text=True)
        res[p] = r.returncode
    shutil.rmtree(scratch, ignore_errors=True)
    bad = [p for p, rc in res.items() if rc != 1]
    print(sid, res, "LOST " + ",".join(bad) if bad else "", flush=True)
    if bad:
        lost.append((sid, bad))
print(f"seeds: {n}, lost detections: {len(lost)}", lost)
sys.exit(1 if lost else 0)
