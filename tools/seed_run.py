#!/usr/bin/env python3
"""tools/seed_run.py <seed-id> <PID> [PID...]  — apply seeded/<seed-id>/patch.diff to a scratch copy of /repo (outside
/repo and /verif) and run the named checks against it (no cargo test; use seed_eval.py to confirm a seed)."""
import os, shutil, subprocess, sys
sid, pids = sys.argv[1], sys.argv[2:]
src = f"/verif/seeded/{sid}/patch.diff" if os.path.exists(f"/verif/seeded/{sid}/patch.diff") else f"/tmp/seed/{sid}-out/patch.diff"
scratch = f"/tmp/seedcheck/run-{sid}"
os.makedirs("/tmp/seedcheck", exist_ok=True)
shutil.rmtree(scratch, ignore_errors=True)
subprocess.run(["rsync", "-rlp", "--exclude", "target", "--exclude", ".git", "/repo/", scratch + "/"], check=True)
subprocess.run(["patch", "-p1", "-s", "--no-backup-if-mismatch", "-i", src], cwd=scratch, check=True)
rc = 0
results = {}
try:
    for p in pids:
        e = dict(os.environ, VERIF_REPO=scratch, VERIF_EVIDENCE_DIR=os.path.join(scratch, ".evidence"))
        r = subprocess.run(["/verif/check", p], cwd="/verif", env=e, stdout=subprocess.PIPE, stderr=subprocess.STDOUT, text=True)
        fired = [l.strip()[:400] for l in r.stdout.splitlines() if l.strip().startswith("[")]
        results[p] = {"exit": r.returncode, "fired": fired[:5]}
        print(p, "exit", r.returncode)
        for l in fired[:8]:
            print("   ", l)
        if r.returncode not in (0, 1):
            print(r.stdout[-800:])
finally:
    shutil.rmtree(scratch, ignore_errors=True)
# refresh detected_by / check_output in the stored meta (first_run is never touched)
mp = f"/verif/seeded/{sid}/meta.json"
if os.path.exists(mp) and results:
    import json
    m = json.load(open(mp))
    m.setdefault("check_output", {}).update(results)
    m["detected_by"] = sorted(p for p, c in m["check_output"].items() if c["exit"] == 1)
    json.dump(m, open(mp, "w"), indent=1)
