//! E5 — type-level witnesses (DESIGN.md §2). Compiled, never run: `cargo +nightly test --doc --no-run`.
//! Every `compile_fail` witness is paired with a compiling twin that differs only by the offending
//! line, so that a witness whose path is merely wrong cannot pass.

/// C18.D3 — the parser can be shared between threads (compile-pass).
/// ```no_run
/// fn needs_send_sync<T: Send + Sync>() {}
/// needs_send_sync::<cooklang::CooklangParser>();
/// needs_send_sync::<cooklang::Converter>();
/// let parser = cooklang::CooklangParser::canonical();
/// std::thread::scope(|s| {
///     s.spawn(|| parser.parse("a @b{1}").is_valid());
///     s.spawn(|| parser.parse_metadata(">> a: b").is_valid());
/// });
/// ```
pub struct ParserIsSendSync;

/// C18.D2 — parsing needs only `&self` (compile-pass: called through a shared reference).
/// ```no_run
/// fn through_shared(p: &cooklang::CooklangParser, input: &str) -> bool {
///     p.parse(input).is_valid() && p.parse_metadata(input).is_valid()
/// }
/// let _ = through_shared;
/// ```
pub struct ParseTakesSharedSelf;

/// C08.D5 — a scaled recipe cannot be scaled again (twin: scaling a scalable recipe compiles).
/// ```no_run
/// let r = cooklang::parse("@a{1}").unwrap_output();
/// let scaled = r.scale(2.0, &cooklang::Converter::empty());
/// let _ = scaled;
/// ```
/// ```compile_fail,E0599
/// let r = cooklang::parse("@a{1}").unwrap_output();
/// let scaled = r.scale(2.0, &cooklang::Converter::empty());
/// let _ = scaled.scale(2.0, &cooklang::Converter::empty());
/// ```
pub struct ScaledRecipeHasNoScale;

/// C08.D5 — default scaling is also one-shot.
/// ```no_run
/// let r = cooklang::parse("@a{1}").unwrap_output();
/// let scaled = r.default_scale();
/// let _ = scaled;
/// ```
/// ```compile_fail,E0599
/// let r = cooklang::parse("@a{1}").unwrap_output();
/// let scaled = r.default_scale();
/// let _ = scaled.default_scale();
/// ```
pub struct ScaledRecipeHasNoDefaultScale;

/// C08.D5 / C09 — only a scaled recipe can be converted (twin: converting the scaled one compiles).
/// ```no_run
/// let r = cooklang::parse("@a{1}").unwrap_output();
/// let mut scaled = r.default_scale();
/// let _ = scaled.convert(cooklang::convert::System::Metric, &cooklang::Converter::empty());
/// ```
/// ```compile_fail,E0599
/// let mut r = cooklang::parse("@a{1}").unwrap_output();
/// let _ = r.convert(cooklang::convert::System::Metric, &cooklang::Converter::empty());
/// ```
pub struct ScalableRecipeHasNoConvert;

/// C08.D5 — a consumed scalable recipe cannot be used again (scale takes `self`).
/// ```compile_fail,E0382
/// let r = cooklang::parse("@a{1}").unwrap_output();
/// let _a = r.default_scale();
/// let _b = r.default_scale();
/// ```
pub struct ScaleConsumesTheRecipe;
