//! mirfacts — a rustc_private driver that dumps resolved-program facts (MIR CFGs with
//! resolved callees, field names, constants, macro backtraces; ADTs; impls; statics)
//! of every workspace member as one JSON file per crate.
//!
//! Used as RUSTC_WORKSPACE_WRAPPER: argv = [self, rustc, args...].
//! Output directory: $MIRFACTS_OUT (required). File: <crate_name>[-<suffix>].json
#![feature(rustc_private)]
#![allow(clippy::all)]

extern crate rustc_abi;
extern crate rustc_driver;
extern crate rustc_hir;
extern crate rustc_interface;
extern crate rustc_middle;
extern crate rustc_session;
extern crate rustc_span;

use std::fmt::Write as _;

use rustc_driver::Compilation;
use rustc_hir::def::DefKind;
use rustc_hir::def_id::{DefId, LocalDefId, LOCAL_CRATE};
use rustc_middle::mir::{
    self, AggregateKind, BasicBlock, BinOp, Body, Const, ConstValue, Operand, Place,
    ProjectionElem, Rvalue, StatementKind, TerminatorKind,
};
use rustc_middle::ty::print::PrintTraitRefExt;
use rustc_middle::ty::{self, Instance, Ty, TyCtxt, TypingEnv};
use rustc_span::{ExpnKind, Span};

mod json;
use json::J;

struct Cb;

impl rustc_driver::Callbacks for Cb {
    fn after_analysis<'tcx>(
        &mut self,
        _compiler: &rustc_interface::interface::Compiler,
        tcx: TyCtxt<'tcx>,
    ) -> Compilation {
        let crate_name = tcx.crate_name(LOCAL_CRATE).to_string();
        if crate_name.starts_with("build_script") {
            return Compilation::Continue;
        }
        let out_dir = match std::env::var("MIRFACTS_OUT") {
            Ok(d) => d,
            Err(_) => return Compilation::Continue,
        };
        let is_test = tcx.sess.opts.test;
        let crate_types: Vec<String> =
            tcx.crate_types().iter().map(|c| format!("{c:?}")).collect();
        let dump = dump_crate(tcx, &crate_name, is_test, &crate_types);
        let kind = if is_test {
            "test".to_string()
        } else if crate_types.iter().any(|c| c == "Executable") {
            "bin".to_string()
        } else {
            "lib".to_string()
        };
        let path = format!("{out_dir}/{crate_name}.{kind}.json");
        let mut s = String::new();
        dump.write(&mut s);
        // one write per process
        std::fs::write(&path, s).expect("mirfacts: cannot write fact file");
        Compilation::Continue
    }
}

fn main() {
    let mut args: Vec<String> = std::env::args().collect();
    // RUSTC_WORKSPACE_WRAPPER: argv[1] is the path to rustc
    if args.len() > 1 && (args[1].ends_with("rustc") || args[1].contains("/rustc")) {
        args.remove(1);
    }
    rustc_driver::run_compiler(&args, &mut Cb);
}

// ---------------------------------------------------------------------------------------------

fn fn_key(tcx: TyCtxt<'_>, did: DefId) -> String {
    let krate = tcx.crate_name(did.krate);
    let p = ty::print::with_no_trimmed_paths!(ty::print::with_forced_impl_filename_line!(
        tcx.def_path_str(did)
    ));
    let _ = &p;
    // def_path_str with forced impl filename/line would embed line numbers: avoid. Use the plain one.
    let p = ty::print::with_no_trimmed_paths!(tcx.def_path_str(did));
    if did.is_local() {
        format!("{krate}::{p}")
    } else {
        p
    }
}

fn loc(tcx: TyCtxt<'_>, sp: Span) -> (String, usize) {
    let sm = tcx.sess.source_map();
    if sp.is_dummy() {
        return (String::new(), 0);
    }
    let l = sm.lookup_char_pos(sp.lo());
    let name = match &l.file.name {
        rustc_span::FileName::Real(r) => match r.local_path() {
            Some(p) => p.to_string_lossy().into_owned(),
            None => format!("{:?}", l.file.name),
        },
        other => format!("{other:?}"),
    };
    (name, l.line)
}

/// Macro backtrace, innermost first, and the root call site span.
fn macro_chain(sp: Span) -> (Vec<String>, Span) {
    let mut chain = Vec::new();
    let mut s = sp;
    let mut guard = 0;
    loop {
        let ctxt = s.ctxt();
        if ctxt.is_root() || guard > 64 {
            break;
        }
        guard += 1;
        let ed = ctxt.outer_expn_data();
        let d = match ed.kind {
            ExpnKind::Root => "root".to_string(),
            ExpnKind::Macro(kind, name) => format!("{}:{}", kind.descr(), name),
            ExpnKind::AstPass(p) => format!("astpass:{p:?}"),
            ExpnKind::Desugaring(k) => format!("desugar:{k:?}"),
        };
        chain.push(d);
        s = ed.call_site;
    }
    (chain, s)
}

fn span_info(tcx: TyCtxt<'_>, sp: Span, o: &mut Vec<(String, J)>) {
    let (chain, root) = macro_chain(sp);
    let (file, line) = loc(tcx, root);
    o.push(("line".into(), J::Num(line as i128)));
    if !chain.is_empty() {
        o.push(("macros".into(), J::Arr(chain.into_iter().map(J::Str).collect())));
        o.push(("file".into(), J::Str(file)));
    }
}

struct Cx<'a, 'tcx> {
    tcx: TyCtxt<'tcx>,
    body: &'a Body<'tcx>,
    env: TypingEnv<'tcx>,
}

impl<'a, 'tcx> Cx<'a, 'tcx> {
    fn ty_str(&self, t: Ty<'tcx>) -> String {
        ty::print::with_no_trimmed_paths!(format!("{t}"))
    }

    fn place(&self, p: &Place<'tcx>) -> J {
        let mut projs = Vec::new();
        let mut cur = mir::PlaceTy::from_ty(self.body.local_decls[p.local].ty);
        for elem in p.projection.iter() {
            let s = match elem {
                ProjectionElem::Deref => "*".to_string(),
                ProjectionElem::Field(f, _) => {
                    let name = field_name(self.tcx, cur, f);
                    format!(".{name}")
                }
                ProjectionElem::Index(l) => format!("[_{}]", l.as_usize()),
                ProjectionElem::ConstantIndex { offset, from_end, .. } => {
                    if from_end {
                        format!("[-{offset}]")
                    } else {
                        format!("[{offset}]")
                    }
                }
                ProjectionElem::Subslice { from, to, from_end } => {
                    format!("[{from}..{}{to}]", if from_end { "-" } else { "" })
                }
                ProjectionElem::Downcast(name, idx) => match name {
                    Some(n) => format!("as {n}"),
                    None => format!("as #{}", idx.as_usize()),
                },
                ProjectionElem::OpaqueCast(_) => "opaque".to_string(),
                ProjectionElem::UnwrapUnsafeBinder(_) => "unbind".to_string(),
            };
            projs.push(J::Str(s));
            cur = cur.projection_ty(self.tcx, elem);
        }
        J::Obj(vec![
            ("l".into(), J::Num(p.local.as_usize() as i128)),
            ("p".into(), J::Arr(projs)),
        ])
    }

    fn const_(&self, c: &Const<'tcx>) -> J {
        let tcx = self.tcx;
        let ty = c.ty();
        let mut o: Vec<(String, J)> = vec![("ty".into(), J::Str(self.ty_str(ty)))];
        if let ty::FnDef(did, args) = ty.kind() {
            o.push(("fn".into(), self.callee(*did, args)));
            return J::Obj(o);
        }
        if let Const::Unevaluated(uv, _) = c {
            o.push(("path".into(), J::Str(fn_key(tcx, uv.def))));
            if let Some(p) = uv.promoted {
                o.push(("promoted".into(), J::Num(p.as_usize() as i128)));
            }
        }
        // evaluate when closed
        if let Ok(v) = c.eval(tcx, self.env, rustc_span::DUMMY_SP) {
            self.const_value(v, ty, &mut o);
        }
        J::Obj(o)
    }

    fn const_value(&self, v: ConstValue, ty: Ty<'tcx>, o: &mut Vec<(String, J)>) {
        let tcx = self.tcx;
        match v {
            ConstValue::Scalar(mir::interpret::Scalar::Int(i)) => {
                let size = i.size();
                let bits = i.to_bits(size);
                o.push(("bits".into(), J::Str(bits.to_string())));
                match ty.kind() {
                    ty::Int(_) => {
                        let v = size.sign_extend(bits) as i128;
                        o.push(("int".into(), J::Str(v.to_string())));
                    }
                    ty::Float(ty::FloatTy::F64) => {
                        let f = f64::from_bits(bits as u64);
                        o.push(("f64".into(), J::Str(format!("{f:?}"))));
                    }
                    ty::Float(ty::FloatTy::F32) => {
                        let f = f32::from_bits(bits as u32);
                        o.push(("f64".into(), J::Str(format!("{f:?}"))));
                    }
                    ty::Char => {
                        if let Some(ch) = char::from_u32(bits as u32) {
                            o.push(("char".into(), J::Str(ch.to_string())));
                        }
                    }
                    _ => {}
                }
            }
            ConstValue::Scalar(mir::interpret::Scalar::Ptr(ptr, _)) => {
                o.push(("ptr".into(), J::Bool(true)));
                let alloc_id = ptr.provenance.alloc_id();
                match tcx.try_get_global_alloc(alloc_id) {
                    Some(mir::interpret::GlobalAlloc::Static(did)) => {
                        o.push(("static".into(), J::Str(fn_key(tcx, did))));
                        o.push(("static_tls".into(), J::Bool(tcx.is_thread_local_static(did))));
                    }
                    Some(mir::interpret::GlobalAlloc::Function { instance }) => {
                        o.push(("fnptr".into(), J::Str(fn_key(tcx, instance.def_id()))));
                    }
                    Some(mir::interpret::GlobalAlloc::Memory(alloc)) => {
                        o.push(("mem".into(), J::Bool(true)));
                        // `&[u8; N]`: byte-string constants (format_args! templates)
                        if let ty::Ref(_, inner, _) = ty.kind() {
                            if let ty::Array(elem, len) = inner.kind() {
                                if *elem == tcx.types.u8 {
                                    if let Some(n) = len.try_to_target_usize(tcx) {
                                        let n = n as usize;
                                        let off = ptr.into_raw_parts().1.bytes_usize();
                                        let a = alloc.inner();
                                        if n <= 4096 && off + n <= a.len() {
                                            let bytes = a.inspect_with_uninit_and_ptr_outside_interpreter(off..off + n);
                                            let mut hex = String::with_capacity(2 * n);
                                            for b in bytes {
                                                hex.push_str(&format!("{b:02x}"));
                                            }
                                            o.push(("bytes_hex".into(), J::Str(hex)));
                                        }
                                    }
                                }
                            }
                        }
                        // `&Enum::Variant` of a field-less enum (promoted constants such as `&Stage::Parse`)
                        if let ty::Ref(_, inner, _) = ty.kind() {
                            if let ty::Adt(adt, _) = inner.kind() {
                                if adt.is_enum() && adt.variants().iter().all(|v| v.fields.is_empty()) {
                                    if let Ok(layout) = tcx.layout_of(self.env.as_query_input(*inner)) {
                                        let size = layout.size.bytes_usize();
                                        let off = ptr.into_raw_parts().1.bytes_usize();
                                        let a = alloc.inner();
                                        if size >= 1 && size <= 8 && off + size <= a.len() {
                                            let bytes = a.inspect_with_uninit_and_ptr_outside_interpreter(off..off + size);
                                            let mut v: u128 = 0;
                                            for (i, b) in bytes.iter().enumerate() {
                                                v |= (*b as u128) << (8 * i);
                                            }
                                            for (idx, d) in adt.discriminants(tcx) {
                                                let mask = if size >= 16 { u128::MAX } else { (1u128 << (8 * size)) - 1 };
                                                if d.val & mask == v {
                                                    o.push(("enum_variant".into(), J::Str(adt.variant(idx).name.to_string())));
                                                    o.push(("enum".into(), J::Str(fn_key(tcx, adt.did()))));
                                                }
                                            }
                                        }
                                    }
                                }
                            }
                        }
                    }
                    _ => {}
                }
            }
            ConstValue::ZeroSized => {
                o.push(("zst".into(), J::Bool(true)));
            }
            ConstValue::Slice { .. } => {
                let is_str = matches!(ty.kind(), ty::Ref(_, inner, _) if inner.is_str());
                let is_bytes = matches!(ty.kind(), ty::Ref(_, inner, _)
                    if matches!(inner.kind(), ty::Slice(e) if *e == tcx.types.u8));
                if is_str || is_bytes {
                    if let Some(b) = v.try_get_slice_bytes_for_diagnostics(tcx) {
                        o.push(("str".into(), J::Str(String::from_utf8_lossy(b).into_owned())));
                    }
                }
            }
            ConstValue::Indirect { .. } => {
                o.push(("indirect".into(), J::Bool(true)));
            }
        }
    }

    fn operand(&self, op: &Operand<'tcx>) -> J {
        match op {
            Operand::Copy(p) => J::Obj(vec![("copy".into(), self.place(p))]),
            Operand::Move(p) => J::Obj(vec![("move".into(), self.place(p))]),
            Operand::Constant(c) => J::Obj(vec![("const".into(), self.const_(&c.const_))]),
            #[allow(unreachable_patterns)]
            _ => J::Obj(vec![("other".into(), J::Str(format!("{op:?}")))]),
        }
    }

    fn callee(&self, did: DefId, args: ty::GenericArgsRef<'tcx>) -> J {
        let tcx = self.tcx;
        let mut o: Vec<(String, J)> = Vec::new();
        o.push(("def".into(), J::Str(fn_key(tcx, did))));
        o.push(("krate".into(), J::Str(tcx.crate_name(did.krate).to_string())));
        let args_s: Vec<J> = args
            .iter()
            .filter(|a| a.as_region().is_none())
            .map(|a| J::Str(ty::print::with_no_trimmed_paths!(format!("{a}"))))
            .collect();
        o.push(("args".into(), J::Arr(args_s)));
        let dk = tcx.def_kind(did);
        if matches!(dk, DefKind::Fn | DefKind::AssocFn) {
            let sig = tcx.fn_sig(did).skip_binder();
            if sig.safety().is_unsafe() {
                o.push(("unsafe".into(), J::Bool(true)));
            }
        }
        if let Some(tr) = tcx.trait_of_assoc(did) {
            o.push(("trait".into(), J::Str(fn_key(tcx, tr))));
        }
        // resolve
        let resolved = std::panic::catch_unwind(std::panic::AssertUnwindSafe(|| {
            Instance::try_resolve(tcx, self.env, did, args)
        }));
        if let Ok(Ok(Some(inst))) = resolved {
            let rdid = inst.def_id();
            o.push(("rdef".into(), J::Str(fn_key(tcx, rdid))));
            o.push(("rkrate".into(), J::Str(tcx.crate_name(rdid.krate).to_string())));
            let kind = match inst.def {
                ty::InstanceKind::Item(_) => "item",
                ty::InstanceKind::Intrinsic(_) => "intrinsic",
                ty::InstanceKind::Virtual(..) => "virtual",
                ty::InstanceKind::ClosureOnceShim { .. } => "closure_once_shim",
                ty::InstanceKind::FnPtrShim(..) => "fnptr_shim",
                ty::InstanceKind::DropGlue(..) => "drop_glue",
                ty::InstanceKind::CloneShim(..) => "clone_shim",
                ty::InstanceKind::ReifyShim(..) => "reify_shim",
                ty::InstanceKind::VTableShim(..) => "vtable_shim",
                _ => "other",
            };
            o.push(("rkind".into(), J::Str(kind.into())));
            let rargs: Vec<J> = inst
                .args
                .iter()
                .filter(|a| a.as_region().is_none())
                .map(|a| J::Str(ty::print::with_no_trimmed_paths!(format!("{a}"))))
                .collect();
            o.push(("rargs".into(), J::Arr(rargs)));
            if rdid.is_local() {
                o.push(("local".into(), J::Bool(true)));
            }
        } else if did.is_local() && tcx.trait_of_assoc(did).is_none() {
            o.push(("rdef".into(), J::Str(fn_key(tcx, did))));
            o.push(("local".into(), J::Bool(true)));
        }
        J::Obj(o)
    }

    fn rvalue(&self, rv: &Rvalue<'tcx>) -> J {
        let tcx = self.tcx;
        let mut o: Vec<(String, J)> = Vec::new();
        match rv {
            Rvalue::Use(op, ..) => {
                o.push(("k".into(), J::Str("use".into())));
                o.push(("op".into(), self.operand(op)));
            }
            Rvalue::CopyForDeref(p) => {
                o.push(("k".into(), J::Str("use".into())));
                o.push(("op".into(), J::Obj(vec![("copy".into(), self.place(p))])));
            }
            Rvalue::Repeat(op, _) => {
                o.push(("k".into(), J::Str("repeat".into())));
                o.push(("op".into(), self.operand(op)));
            }
            Rvalue::Ref(_, bk, p) => {
                o.push(("k".into(), J::Str("ref".into())));
                o.push(("mut".into(), J::Bool(matches!(bk, mir::BorrowKind::Mut { .. }))));
                o.push(("place".into(), self.place(p)));
            }
            Rvalue::ThreadLocalRef(did) => {
                o.push(("k".into(), J::Str("tls".into())));
                o.push(("def".into(), J::Str(fn_key(tcx, *did))));
            }
            Rvalue::RawPtr(k, p) => {
                o.push(("k".into(), J::Str("rawptr".into())));
                o.push(("mut".into(), J::Bool(matches!(k, mir::RawPtrKind::Mut))));
                o.push(("place".into(), self.place(p)));
            }
            Rvalue::Cast(kind, op, ty) => {
                o.push(("k".into(), J::Str("cast".into())));
                o.push(("kind".into(), J::Str(format!("{kind:?}"))));
                o.push(("op".into(), self.operand(op)));
                o.push(("from".into(), J::Str(self.ty_str(op.ty(self.body, tcx)))));
                o.push(("ty".into(), J::Str(self.ty_str(*ty))));
            }
            Rvalue::BinaryOp(op, b) => {
                o.push(("k".into(), J::Str("bin".into())));
                o.push(("op".into(), J::Str(format!("{op:?}"))));
                o.push(("l".into(), self.operand(&b.0)));
                o.push(("r".into(), self.operand(&b.1)));
                o.push(("lty".into(), J::Str(self.ty_str(b.0.ty(self.body, tcx)))));
                let _ = BinOp::Add;
            }
            Rvalue::UnaryOp(op, x) => {
                o.push(("k".into(), J::Str("un".into())));
                o.push(("op".into(), J::Str(format!("{op:?}"))));
                o.push(("x".into(), self.operand(x)));
                o.push(("xty".into(), J::Str(self.ty_str(x.ty(self.body, tcx)))));
            }
            Rvalue::Discriminant(p) => {
                o.push(("k".into(), J::Str("discr".into())));
                o.push(("place".into(), self.place(p)));
                let pty = p.ty(self.body, tcx).ty;
                o.push(("ty".into(), J::Str(self.ty_str(pty))));
                if let ty::Adt(adt, _) = pty.kind() {
                    if adt.is_enum() {
                        let mut vs = Vec::new();
                        for (idx, d) in adt.discriminants(tcx) {
                            let name = adt.variant(idx).name.to_string();
                            vs.push(J::Arr(vec![J::Str(d.val.to_string()), J::Str(name)]));
                        }
                        o.push(("variants".into(), J::Arr(vs)));
                    }
                }
            }
            Rvalue::Aggregate(kind, ops) => {
                o.push(("k".into(), J::Str("agg".into())));
                match &**kind {
                    AggregateKind::Array(t) => {
                        o.push(("agg".into(), J::Str("array".into())));
                        o.push(("ty".into(), J::Str(self.ty_str(*t))));
                    }
                    AggregateKind::Tuple => {
                        o.push(("agg".into(), J::Str("tuple".into())));
                    }
                    AggregateKind::Adt(did, vidx, args, _, active) => {
                        let adt = tcx.adt_def(*did);
                        let v = adt.variant(*vidx);
                        o.push(("agg".into(), J::Str("adt".into())));
                        o.push(("adt".into(), J::Str(fn_key(tcx, *did))));
                        o.push(("variant".into(), J::Str(v.name.to_string())));
                        let names: Vec<J> = if let Some(a) = active {
                            vec![J::Str(v.fields[*a].name.to_string())]
                        } else {
                            v.fields.iter().map(|f| J::Str(f.name.to_string())).collect()
                        };
                        o.push(("fields".into(), J::Arr(names)));
                        let targs: Vec<J> = args
                            .iter()
                            .filter(|a| a.as_region().is_none())
                            .map(|a| J::Str(ty::print::with_no_trimmed_paths!(format!("{a}"))))
                            .collect();
                        o.push(("targs".into(), J::Arr(targs)));
                    }
                    AggregateKind::Closure(did, _) => {
                        o.push(("agg".into(), J::Str("closure".into())));
                        o.push(("closure".into(), J::Str(fn_key(tcx, *did))));
                    }
                    AggregateKind::Coroutine(did, _) => {
                        o.push(("agg".into(), J::Str("coroutine".into())));
                        o.push(("closure".into(), J::Str(fn_key(tcx, *did))));
                    }
                    AggregateKind::CoroutineClosure(did, _) => {
                        o.push(("agg".into(), J::Str("coroutine_closure".into())));
                        o.push(("closure".into(), J::Str(fn_key(tcx, *did))));
                    }
                    AggregateKind::RawPtr(..) => {
                        o.push(("agg".into(), J::Str("rawptr".into())));
                    }
                }
                o.push(("ops".into(), J::Arr(ops.iter().map(|x| self.operand(x)).collect())));
            }
            Rvalue::WrapUnsafeBinder(op, _) => {
                o.push(("k".into(), J::Str("use".into())));
                o.push(("op".into(), self.operand(op)));
            }
            #[allow(unreachable_patterns)]
            other => {
                o.push(("k".into(), J::Str("other".into())));
                o.push(("text".into(), J::Str(format!("{other:?}"))));
            }
        }
        J::Obj(o)
    }
}

fn field_name<'tcx>(
    tcx: TyCtxt<'tcx>,
    pty: mir::PlaceTy<'tcx>,
    f: rustc_abi::FieldIdx,
) -> String {
    match pty.ty.kind() {
        ty::Adt(adt, _) => {
            let v = match pty.variant_index {
                Some(v) => adt.variant(v),
                None => {
                    if adt.is_enum() {
                        return f.as_usize().to_string();
                    }
                    adt.non_enum_variant()
                }
            };
            v.fields[f].name.to_string()
        }
        ty::Closure(did, _) => {
            // upvar names
            let names = tcx.closure_saved_names_of_captured_variables(*did);
            match names.get(f) {
                Some(n) => format!("^{n}"),
                None => f.as_usize().to_string(),
            }
        }
        _ => f.as_usize().to_string(),
    }
}

fn bb(b: BasicBlock) -> J {
    J::Num(b.as_usize() as i128)
}

fn dump_body<'tcx>(tcx: TyCtxt<'tcx>, ldid: LocalDefId) -> Option<J> {
    let did = ldid.to_def_id();
    let dk = tcx.def_kind(did);
    let body: &Body<'tcx> = match dk {
        DefKind::Fn | DefKind::AssocFn | DefKind::Closure => tcx.optimized_mir(did),
        DefKind::Const { .. } | DefKind::AssocConst { .. } | DefKind::Static { .. } | DefKind::InlineConst
        | DefKind::AnonConst => {
            // const bodies: mir_for_ctfe
            if true {
                tcx.mir_for_ctfe(did)
            } else {
                return None;
            }
        }
        _ => return None,
    };
    let env = TypingEnv::post_analysis(tcx, did);
    let cx = Cx { tcx, body, env };
    let mut o: Vec<(String, J)> = Vec::new();
    o.push(("key".into(), J::Str(fn_key(tcx, did))));
    o.push(("kind".into(), J::Str(format!("{dk:?}"))));
    let (file, line) = loc(tcx, body.span);
    let (chain, root) = macro_chain(tcx.def_span(did));
    let (rfile, rline) = loc(tcx, root);
    o.push(("file".into(), J::Str(if chain.is_empty() { file } else { rfile })));
    o.push(("line".into(), J::Num(if chain.is_empty() { line } else { rline } as i128)));
    if !chain.is_empty() {
        o.push(("macros".into(), J::Arr(chain.into_iter().map(J::Str).collect())));
    }
    if matches!(dk, DefKind::Fn | DefKind::AssocFn) {
        let vis = tcx.visibility(did);
        o.push(("vis".into(), J::Str(if vis.is_public() { "pub".into() } else { format!("{vis:?}") })));
        let ev = tcx.effective_visibilities(());
        o.push(("exported".into(), J::Bool(ev.is_reachable(ldid))));
        let sig = tcx.fn_sig(did).skip_binder();
        if sig.safety().is_unsafe() {
            o.push(("unsafe".into(), J::Bool(true)));
        }
    }
    if dk == DefKind::Closure {
        let parent = tcx.typeck_root_def_id(did);
        o.push(("root".into(), J::Str(fn_key(tcx, parent))));
        o.push(("parent".into(), J::Str(fn_key(tcx, tcx.parent(did)))));
    }
    if let Some(imp) = tcx.impl_of_assoc(did) {
        let self_ty = tcx.type_of(imp).instantiate_identity().skip_norm_wip();
        o.push(("impl_self".into(), J::Str(cx.ty_str(self_ty))));
        if let Some(tr) = tcx.impl_opt_trait_ref(imp) {
            let tr = tr.instantiate_identity().skip_norm_wip();
            o.push((
                "impl_trait".into(),
                J::Str(ty::print::with_no_trimmed_paths!(format!("{}", tr.print_only_trait_path()))),
            ));
        }
    }
    // cfg(test) detection through attributes is not needed: lib builds exclude them.
    o.push(("argc".into(), J::Num(body.arg_count as i128)));
    // locals
    let mut names: Vec<Option<String>> = vec![None; body.local_decls.len()];
    let mut upvar_debug: Vec<J> = Vec::new();
    for vdi in &body.var_debug_info {
        if let mir::VarDebugInfoContents::Place(p) = &vdi.value {
            if p.projection.is_empty() {
                names[p.local.as_usize()] = Some(vdi.name.to_string());
            } else {
                upvar_debug.push(J::Obj(vec![
                    ("name".into(), J::Str(vdi.name.to_string())),
                    ("place".into(), cx.place(p)),
                ]));
            }
        }
    }
    let locals: Vec<J> = body
        .local_decls
        .iter_enumerated()
        .map(|(l, d)| {
            let mut lo = vec![("ty".into(), J::Str(cx.ty_str(d.ty)))];
            if let Some(n) = &names[l.as_usize()] {
                lo.push(("name".into(), J::Str(n.clone())));
            }
            J::Obj(lo)
        })
        .collect();
    o.push(("locals".into(), J::Arr(locals)));
    if !upvar_debug.is_empty() {
        o.push(("upvars".into(), J::Arr(upvar_debug)));
    }
    // blocks
    let mut blocks = Vec::new();
    for (_bbi, data) in body.basic_blocks.iter_enumerated() {
        let mut b: Vec<(String, J)> = Vec::new();
        if data.is_cleanup {
            b.push(("cleanup".into(), J::Bool(true)));
        }
        let mut stmts = Vec::new();
        for st in &data.statements {
            match &st.kind {
                StatementKind::Assign(bx) => {
                    let (p, rv) = &**bx;
                    let mut so: Vec<(String, J)> = vec![
                        ("k".into(), J::Str("assign".into())),
                        ("place".into(), cx.place(p)),
                        ("rv".into(), cx.rvalue(rv)),
                    ];
                    span_info(tcx, st.source_info.span, &mut so);
                    stmts.push(J::Obj(so));
                }
                StatementKind::SetDiscriminant { place, variant_index } => {
                    let mut so: Vec<(String, J)> = vec![
                        ("k".into(), J::Str("setdiscr".into())),
                        ("place".into(), cx.place(place)),
                        ("variant".into(), J::Num(variant_index.as_usize() as i128)),
                    ];
                    span_info(tcx, st.source_info.span, &mut so);
                    stmts.push(J::Obj(so));
                }
                StatementKind::Intrinsic(i) => {
                    let so: Vec<(String, J)> = vec![
                        ("k".into(), J::Str("intrinsic".into())),
                        ("text".into(), J::Str(format!("{i:?}"))),
                    ];
                    stmts.push(J::Obj(so));
                }
                _ => {}
            }
        }
        b.push(("stmts".into(), J::Arr(stmts)));
        let term = data.terminator();
        let mut t: Vec<(String, J)> = Vec::new();
        match &term.kind {
            TerminatorKind::Goto { target } => {
                t.push(("k".into(), J::Str("goto".into())));
                t.push(("target".into(), bb(*target)));
            }
            TerminatorKind::SwitchInt { discr, targets } => {
                t.push(("k".into(), J::Str("switch".into())));
                t.push(("discr".into(), cx.operand(discr)));
                t.push(("dty".into(), J::Str(cx.ty_str(discr.ty(body, tcx)))));
                let mut ts = Vec::new();
                for (v, tb) in targets.iter() {
                    ts.push(J::Arr(vec![J::Str(v.to_string()), bb(tb)]));
                }
                t.push(("targets".into(), J::Arr(ts)));
                t.push(("otherwise".into(), bb(targets.otherwise())));
            }
            TerminatorKind::Return => t.push(("k".into(), J::Str("return".into()))),
            TerminatorKind::Unreachable => t.push(("k".into(), J::Str("unreachable".into()))),
            TerminatorKind::UnwindResume => t.push(("k".into(), J::Str("resume".into()))),
            TerminatorKind::UnwindTerminate(_) => t.push(("k".into(), J::Str("abort".into()))),
            TerminatorKind::Drop { place, target, .. } => {
                t.push(("k".into(), J::Str("drop".into())));
                t.push(("place".into(), cx.place(place)));
                t.push(("target".into(), bb(*target)));
            }
            TerminatorKind::Call { func, args, destination, target, fn_span, .. } => {
                t.push(("k".into(), J::Str("call".into())));
                let fty = func.ty(body, tcx);
                match fty.kind() {
                    ty::FnDef(did, gargs) => {
                        t.push(("callee".into(), cx.callee(*did, gargs)));
                    }
                    _ => {
                        t.push(("indirect".into(), cx.operand(func)));
                        t.push(("fty".into(), J::Str(cx.ty_str(fty))));
                    }
                }
                t.push(("args".into(), J::Arr(args.iter().map(|a| cx.operand(&a.node)).collect())));
                t.push(("dest".into(), cx.place(destination)));
                if let Some(tb) = target {
                    t.push(("target".into(), bb(*tb)));
                }
                let (_, fl) = loc(tcx, macro_chain(*fn_span).1);
                t.push(("fn_line".into(), J::Num(fl as i128)));
            }
            TerminatorKind::TailCall { func, args, .. } => {
                t.push(("k".into(), J::Str("tailcall".into())));
                t.push(("func".into(), cx.operand(func)));
                t.push(("args".into(), J::Arr(args.iter().map(|a| cx.operand(&a.node)).collect())));
            }
            TerminatorKind::Assert { cond, expected, msg, target, .. } => {
                t.push(("k".into(), J::Str("assert".into())));
                t.push(("cond".into(), cx.operand(cond)));
                t.push(("expected".into(), J::Bool(*expected)));
                use mir::AssertKind as AK;
                let (kind, detail, tys): (&str, String, Vec<J>) = match &**msg {
                    AK::BoundsCheck { len, index } => (
                        "bounds",
                        String::new(),
                        vec![cx.operand(len), cx.operand(index)],
                    ),
                    AK::Overflow(op, l, r) => (
                        "overflow",
                        format!("{op:?}"),
                        vec![
                            J::Str(cx.ty_str(l.ty(body, tcx))),
                            J::Str(cx.ty_str(r.ty(body, tcx))),
                        ],
                    ),
                    AK::OverflowNeg(x) => {
                        ("overflow_neg", String::new(), vec![J::Str(cx.ty_str(x.ty(body, tcx)))])
                    }
                    AK::DivisionByZero(x) => {
                        ("div_zero", String::new(), vec![J::Str(cx.ty_str(x.ty(body, tcx)))])
                    }
                    AK::RemainderByZero(x) => {
                        ("rem_zero", String::new(), vec![J::Str(cx.ty_str(x.ty(body, tcx)))])
                    }
                    AK::MisalignedPointerDereference { .. } => ("misaligned", String::new(), vec![]),
                    AK::NullPointerDereference => ("nullptr", String::new(), vec![]),
                    AK::InvalidEnumConstruction(_) => ("invalid_enum", String::new(), vec![]),
                    _ => ("other", format!("{msg:?}"), vec![]),
                };
                t.push(("akind".into(), J::Str(kind.into())));
                t.push(("detail".into(), J::Str(detail)));
                t.push(("aops".into(), J::Arr(tys)));
                t.push(("target".into(), bb(*target)));
            }
            TerminatorKind::FalseEdge { real_target, .. } => {
                t.push(("k".into(), J::Str("goto".into())));
                t.push(("target".into(), bb(*real_target)));
            }
            TerminatorKind::FalseUnwind { real_target, .. } => {
                t.push(("k".into(), J::Str("goto".into())));
                t.push(("target".into(), bb(*real_target)));
            }
            other => {
                t.push(("k".into(), J::Str("other".into())));
                t.push(("text".into(), J::Str(format!("{other:?}"))));
            }
        }
        span_info(tcx, term.source_info.span, &mut t);
        b.push(("term".into(), J::Obj(t)));
        blocks.push(J::Obj(b));
    }
    o.push(("blocks".into(), J::Arr(blocks)));
    Some(J::Obj(o))
}

fn dump_crate<'tcx>(tcx: TyCtxt<'tcx>, crate_name: &str, is_test: bool, crate_types: &[String]) -> J {
    let mut o: Vec<(String, J)> = Vec::new();
    o.push(("crate".into(), J::Str(crate_name.into())));
    o.push(("is_test".into(), J::Bool(is_test)));
    o.push(("crate_types".into(), J::Arr(crate_types.iter().cloned().map(J::Str).collect())));
    o.push((
        "debug_assertions".into(),
        J::Bool(tcx.sess.opts.debug_assertions),
    ));
    o.push((
        "overflow_checks".into(),
        J::Bool(tcx.sess.overflow_checks()),
    ));
    // functions
    let mut fns = Vec::new();
    for ldid in tcx.hir_body_owners() {
        let r = std::panic::catch_unwind(std::panic::AssertUnwindSafe(|| dump_body(tcx, ldid)));
        match r {
            Ok(Some(j)) => fns.push(j),
            Ok(None) => {}
            Err(_) => {
                fns.push(J::Obj(vec![
                    ("key".into(), J::Str(fn_key(tcx, ldid.to_def_id()))),
                    ("error".into(), J::Str("panic while dumping".into())),
                ]));
            }
        }
    }
    o.push(("functions".into(), J::Arr(fns)));

    // ADTs, statics, impls, traits
    let mut adts = Vec::new();
    let mut statics = Vec::new();
    let mut impls = Vec::new();
    let mut consts = Vec::new();
    for id in tcx.hir_crate_items(()).definitions() {
        let did = id.to_def_id();
        match tcx.def_kind(did) {
            DefKind::Struct | DefKind::Enum | DefKind::Union => {
                let adt = tcx.adt_def(did);
                let mut a: Vec<(String, J)> = Vec::new();
                a.push(("key".into(), J::Str(fn_key(tcx, did))));
                a.push(("kind".into(), J::Str(format!("{:?}", tcx.def_kind(did)))));
                let (file, line) = loc(tcx, macro_chain(tcx.def_span(did)).1);
                a.push(("file".into(), J::Str(file)));
                a.push(("line".into(), J::Num(line as i128)));
                let ev = tcx.effective_visibilities(());
                a.push(("exported".into(), J::Bool(ev.is_reachable(id))));
                let mut vs = Vec::new();
                for v in adt.variants() {
                    let mut fs = Vec::new();
                    for f in &v.fields {
                        let fty = tcx.type_of(f.did).instantiate_identity().skip_norm_wip();
                        fs.push(J::Obj(vec![
                            ("name".into(), J::Str(f.name.to_string())),
                            ("ty".into(), J::Str(ty::print::with_no_trimmed_paths!(format!("{fty}")))),
                            ("pub".into(), J::Bool(f.vis.is_public())),
                        ]));
                    }
                    vs.push(J::Obj(vec![
                        ("name".into(), J::Str(v.name.to_string())),
                        ("fields".into(), J::Arr(fs)),
                    ]));
                }
                a.push(("variants".into(), J::Arr(vs)));
                // auto-trait / freeze answers for non-generic ADTs
                let generics = tcx.generics_of(did);
                if generics.own_params.iter().all(|p| matches!(p.kind, ty::GenericParamDefKind::Lifetime)) && generics.own_params.is_empty() {
                    let t = tcx.type_of(did).instantiate_identity().skip_norm_wip();
                    let env = TypingEnv::post_analysis(tcx, did);
                    a.push(("freeze".into(), J::Bool(t.is_freeze(tcx, env))));
                }
                adts.push(J::Obj(a));
            }
            DefKind::Static { mutability, .. } => {
                let t = tcx.type_of(did).instantiate_identity().skip_norm_wip();
                let env = TypingEnv::post_analysis(tcx, did);
                let (chain, root) = macro_chain(tcx.def_span(did));
                let (file, line) = loc(tcx, root);
                statics.push(J::Obj(vec![
                    ("key".into(), J::Str(fn_key(tcx, did))),
                    ("ty".into(), J::Str(ty::print::with_no_trimmed_paths!(format!("{t}")))),
                    ("mut".into(), J::Bool(mutability.is_mut())),
                    ("freeze".into(), J::Bool(t.is_freeze(tcx, env))),
                    ("macros".into(), J::Arr(chain.into_iter().map(J::Str).collect())),
                    ("file".into(), J::Str(file)),
                    ("line".into(), J::Num(line as i128)),
                ]));
            }
            DefKind::Impl { of_trait } => {
                let self_ty = tcx.type_of(did).instantiate_identity().skip_norm_wip();
                let mut im: Vec<(String, J)> = Vec::new();
                im.push(("self".into(), J::Str(ty::print::with_no_trimmed_paths!(format!("{self_ty}")))));
                if of_trait {
                    if let Some(tr) = tcx.impl_opt_trait_ref(did) {
                        let tr = tr.instantiate_identity().skip_norm_wip();
                        im.push((
                            "trait".into(),
                            J::Str(ty::print::with_no_trimmed_paths!(format!("{}", tr.print_only_trait_path()))),
                        ));
                        im.push(("trait_def".into(), J::Str(fn_key(tcx, tr.def_id))));
                    }
                }
                let (chain, root) = macro_chain(tcx.def_span(did));
                let (file, line) = loc(tcx, root);
                im.push(("macros".into(), J::Arr(chain.into_iter().map(J::Str).collect())));
                im.push(("file".into(), J::Str(file)));
                im.push(("line".into(), J::Num(line as i128)));
                let mut ms = Vec::new();
                for item in tcx.associated_items(did).in_definition_order() {
                    if item.is_fn() {
                        let mut m = vec![
                            ("name".into(), J::Str(item.name().to_string())),
                            ("key".into(), J::Str(fn_key(tcx, item.def_id))),
                        ];
                        if let Some(tid) = item.trait_item_def_id() {
                            m.push(("trait_item".into(), J::Str(fn_key(tcx, tid))));
                        }
                        ms.push(J::Obj(m));
                    }
                }
                im.push(("methods".into(), J::Arr(ms)));
                impls.push(J::Obj(im));
            }
            DefKind::Const { .. } | DefKind::AssocConst { .. } => {
                // evaluated value of closed constants with scalar values
                let generics = tcx.generics_of(did);
                if generics.count() == 0 {
                    let t = tcx.type_of(did).instantiate_identity().skip_norm_wip();
                    let mut c: Vec<(String, J)> = vec![
                        ("key".into(), J::Str(fn_key(tcx, did))),
                        ("ty".into(), J::Str(ty::print::with_no_trimmed_paths!(format!("{t}")))),
                    ];
                    let r = std::panic::catch_unwind(std::panic::AssertUnwindSafe(|| {
                        tcx.const_eval_poly(did)
                    }));
                    if let Ok(Ok(v)) = r {
                        if let Some(i) = v.try_to_scalar_int() {
                            let bits = i.to_bits(i.size());
                            c.push(("bits".into(), J::Str(bits.to_string())));
                        }
                        if let ConstValue::Slice { .. } = v {
                            if matches!(t.kind(), ty::Ref(_, inner, _) if inner.is_str()) {
                                if let Some(b) = v.try_get_slice_bytes_for_diagnostics(tcx) {
                                    c.push(("str".into(), J::Str(String::from_utf8_lossy(b).into_owned())));
                                }
                            }
                        }
                    }
                    consts.push(J::Obj(c));
                }
            }
            _ => {}
        }
    }
    o.push(("adts".into(), J::Arr(adts)));
    o.push(("statics".into(), J::Arr(statics)));
    o.push(("impls".into(), J::Arr(impls)));
    o.push(("consts".into(), J::Arr(consts)));

    // Type queries requested via env: MIRFACTS_TYPEQ="path1,path2" — auto trait answers for named local types
    let mut tq = Vec::new();
    if let Some(send) = tcx.get_diagnostic_item(rustc_span::sym::Send) {
        let sync = tcx.get_diagnostic_item(rustc_span::sym::Sync);
        for id in tcx.hir_crate_items(()).definitions() {
            let did = id.to_def_id();
            if !matches!(tcx.def_kind(did), DefKind::Struct | DefKind::Enum) {
                continue;
            }
            if tcx.generics_of(did).count() != 0 {
                continue;
            }
            let t = tcx.type_of(did).instantiate_identity().skip_norm_wip();
            let env = TypingEnv::post_analysis(tcx, did);
            let is_send = implements(tcx, env, t, send);
            let is_sync = sync.map(|s| implements(tcx, env, t, s)).unwrap_or(false);
            tq.push(J::Obj(vec![
                ("key".into(), J::Str(fn_key(tcx, did))),
                ("send".into(), J::Bool(is_send)),
                ("sync".into(), J::Bool(is_sync)),
            ]));
        }
    }
    o.push(("auto_traits".into(), J::Arr(tq)));
    let mut s = String::new();
    let _ = write!(s, "{}", fns_len(&o));
    J::Obj(o)
}

fn fns_len(_o: &[(String, J)]) -> usize {
    0
}

fn implements<'tcx>(tcx: TyCtxt<'tcx>, env: TypingEnv<'tcx>, t: Ty<'tcx>, tr: DefId) -> bool {
    extern crate rustc_infer;
    extern crate rustc_trait_selection;
    use rustc_infer::infer::TyCtxtInferExt;
    use rustc_trait_selection::infer::InferCtxtExt;
    let (infcx, param_env) = tcx.infer_ctxt().build_with_typing_env(env);
    infcx.type_implements_trait(tr, [t], param_env).must_apply_modulo_regions()
}
