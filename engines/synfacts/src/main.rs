//! synfacts — syntax-tree facts that are absent from HIR (derive helper attributes such as
//! `#[serde(..)]`), read with `syn` from the current working tree.
//!
//! usage: synfacts <repo root>      (JSON on stdout)
mod json;
use json::J;
use quote::ToTokens;
use std::path::{Path, PathBuf};

fn ts<T: ToTokens>(t: &T) -> String {
    let s = t.to_token_stream().to_string();
    // normalise token spacing
    let mut out = String::new();
    let cs: Vec<char> = s.chars().collect();
    for (i, c) in cs.iter().enumerate() {
        if *c == ' ' {
            let prev = if i > 0 { cs[i - 1] } else { ' ' };
            let next = if i + 1 < cs.len() { cs[i + 1] } else { ' ' };
            let keep = (prev.is_alphanumeric() || prev == '_' || prev == '"') && (next.is_alphanumeric() || next == '_' || next == '"' || next == '\'')
                || (prev == ',' ) || (next == '=' ) || (prev == '=' && next != '=');
            if !keep {
                continue;
            }
        }
        out.push(*c);
    }
    out
}

fn attrs(attrs: &[syn::Attribute]) -> (Vec<J>, Vec<J>, Vec<J>, bool) {
    // returns (derives, serde attr items, other attr paths, cfg_test)
    let mut derives = Vec::new();
    let mut serde = Vec::new();
    let mut others = Vec::new();
    let mut cfg_test = false;
    for a in attrs {
        let path = ts(a.path());
        if path == "derive" {
            if let Ok(list) = a.parse_args_with(syn::punctuated::Punctuated::<syn::Path, syn::Token![,]>::parse_terminated) {
                for p in list {
                    derives.push(J::Str(ts(&p)));
                }
            }
        } else if path == "serde" {
            if let Ok(list) = a.parse_args_with(syn::punctuated::Punctuated::<syn::Meta, syn::Token![,]>::parse_terminated) {
                for m in list {
                    serde.push(J::Str(ts(&m)));
                }
            }
        } else if path == "cfg" {
            let t = ts(&a.meta);
            if t.contains("test") {
                cfg_test = true;
            }
            others.push(J::Str(t));
        } else if path == "cfg_attr" {
            // record verbatim so the lint can refuse to reason about conditional derives
            others.push(J::Str(ts(&a.meta)));
        } else if path != "doc" {
            others.push(J::Str(ts(&a.meta)));
        }
    }
    (derives, serde, others, cfg_test)
}

fn fields(fs: &syn::Fields) -> (String, Vec<J>) {
    let kind = match fs {
        syn::Fields::Named(_) => "struct",
        syn::Fields::Unnamed(_) => "tuple",
        syn::Fields::Unit => "unit",
    };
    let mut out = Vec::new();
    for (i, f) in fs.iter().enumerate() {
        let (_, serde, others, _) = attrs(&f.attrs);
        out.push(J::Obj(vec![
            ("name".into(), J::Str(f.ident.as_ref().map(|x| x.to_string()).unwrap_or(i.to_string()))),
            ("ty".into(), J::Str(ts(&f.ty))),
            ("serde".into(), J::Arr(serde)),
            ("attrs".into(), J::Arr(others)),
        ]));
    }
    (kind.into(), out)
}

struct Ctx {
    items: Vec<J>,
    files: Vec<J>,
    errors: Vec<J>,
}

fn generics(g: &syn::Generics) -> J {
    J::Arr(g.params.iter().map(|p| match p {
        syn::GenericParam::Type(t) => J::Str(t.ident.to_string()),
        syn::GenericParam::Lifetime(l) => J::Str(format!("'{}", l.lifetime.ident)),
        syn::GenericParam::Const(c) => J::Str(c.ident.to_string()),
    }).collect())
}

fn visit_items(cx: &mut Ctx, krate: &str, modpath: &str, file: &Path, dir: &Path, items: &[syn::Item], rel: &str) {
    for it in items {
        match it {
            syn::Item::Struct(s) => {
                let (derives, serde, others, cfg_test) = attrs(&s.attrs);
                if cfg_test { continue; }
                let (kind, fs) = fields(&s.fields);
                cx.items.push(J::Obj(vec![
                    ("crate".into(), J::Str(krate.into())),
                    ("kind".into(), J::Str("struct".into())),
                    ("shape".into(), J::Str(kind)),
                    ("name".into(), J::Str(s.ident.to_string())),
                    ("module".into(), J::Str(modpath.into())),
                    ("file".into(), J::Str(rel.into())),
                    ("line".into(), J::Num(s.ident.span().start().line as i128)),
                    ("generics".into(), generics(&s.generics)),
                    ("derives".into(), J::Arr(derives)),
                    ("serde".into(), J::Arr(serde)),
                    ("attrs".into(), J::Arr(others)),
                    ("fields".into(), J::Arr(fs)),
                ]));
            }
            syn::Item::Enum(e) => {
                let (derives, serde, others, cfg_test) = attrs(&e.attrs);
                if cfg_test { continue; }
                let mut vs = Vec::new();
                for v in &e.variants {
                    let (_, vserde, vothers, _) = attrs(&v.attrs);
                    let (kind, fs) = fields(&v.fields);
                    vs.push(J::Obj(vec![
                        ("name".into(), J::Str(v.ident.to_string())),
                        ("shape".into(), J::Str(kind)),
                        ("serde".into(), J::Arr(vserde)),
                        ("attrs".into(), J::Arr(vothers)),
                        ("fields".into(), J::Arr(fs)),
                    ]));
                }
                cx.items.push(J::Obj(vec![
                    ("crate".into(), J::Str(krate.into())),
                    ("kind".into(), J::Str("enum".into())),
                    ("name".into(), J::Str(e.ident.to_string())),
                    ("module".into(), J::Str(modpath.into())),
                    ("file".into(), J::Str(rel.into())),
                    ("line".into(), J::Num(e.ident.span().start().line as i128)),
                    ("generics".into(), generics(&e.generics)),
                    ("derives".into(), J::Arr(derives)),
                    ("serde".into(), J::Arr(serde)),
                    ("attrs".into(), J::Arr(others)),
                    ("variants".into(), J::Arr(vs)),
                ]));
            }
            syn::Item::Type(t) => {
                cx.items.push(J::Obj(vec![
                    ("crate".into(), J::Str(krate.into())),
                    ("kind".into(), J::Str("alias".into())),
                    ("name".into(), J::Str(t.ident.to_string())),
                    ("module".into(), J::Str(modpath.into())),
                    ("file".into(), J::Str(rel.into())),
                    ("line".into(), J::Num(t.ident.span().start().line as i128)),
                    ("generics".into(), generics(&t.generics)),
                    ("ty".into(), J::Str(ts(&t.ty))),
                ]));
            }
            syn::Item::Impl(im) => {
                // hand-written Serialize / Deserialize impls
                if let Some((_, path, _)) = &im.trait_ {
                    let p = ts(path);
                    if p.ends_with("Serialize") || p.contains("Deserialize") {
                        cx.items.push(J::Obj(vec![
                            ("crate".into(), J::Str(krate.into())),
                            ("kind".into(), J::Str("manual_impl".into())),
                            ("trait".into(), J::Str(p)),
                            ("name".into(), J::Str(ts(&im.self_ty))),
                            ("module".into(), J::Str(modpath.into())),
                            ("file".into(), J::Str(rel.into())),
                            ("line".into(), J::Num(im.impl_token.span.start().line as i128)),
                        ]));
                    }
                }
            }
            syn::Item::Macro(m) => {
                // bitflags! { #[derive(..)] pub struct X: u32 {..} }
                let name = ts(&m.mac.path);
                if name.ends_with("bitflags") {
                    let body = m.mac.tokens.to_string();
                    cx.items.push(J::Obj(vec![
                        ("crate".into(), J::Str(krate.into())),
                        ("kind".into(), J::Str("bitflags".into())),
                        ("module".into(), J::Str(modpath.into())),
                        ("file".into(), J::Str(rel.into())),
                        ("line".into(), J::Num(m.mac.path.segments[0].ident.span().start().line as i128)),
                        ("body".into(), J::Str(body)),
                    ]));
                }
            }
            syn::Item::Mod(m) => {
                let (_, _, others, cfg_test) = attrs(&m.attrs);
                if cfg_test { continue; }
                let _ = others;
                let name = m.ident.to_string();
                let sub = if modpath.is_empty() { name.clone() } else { format!("{modpath}::{name}") };
                if let Some((_, inner)) = &m.content {
                    visit_items(cx, krate, &sub, file, dir, inner, rel);
                } else {
                    // file module: dir/name.rs or dir/name/mod.rs
                    let c1 = dir.join(format!("{name}.rs"));
                    let c2 = dir.join(&name).join("mod.rs");
                    let (p, d) = if c1.exists() { (c1, dir.join(&name)) } else { (c2, dir.join(&name)) };
                    parse_file(cx, krate, &sub, &p, &d);
                }
            }
            _ => {}
        }
    }
}

fn parse_file(cx: &mut Ctx, krate: &str, modpath: &str, file: &Path, dir: &Path) {
    let src = match std::fs::read_to_string(file) {
        Ok(s) => s,
        Err(e) => {
            cx.errors.push(J::Str(format!("{}: {e}", file.display())));
            return;
        }
    };
    let rel = file.to_string_lossy().to_string();
    cx.files.push(J::Str(rel.clone()));
    match syn::parse_file(&src) {
        Ok(f) => visit_items(cx, krate, modpath, file, dir, &f.items, &rel),
        Err(e) => cx.errors.push(J::Str(format!("{}: {e}", file.display()))),
    }
}

/// string literals used as keys in build.rs: `.get("k")`, `["k"]`
fn build_rs_keys(path: &Path) -> Vec<J> {
    use syn::visit::Visit;
    struct V(Vec<J>);
    impl<'ast> Visit<'ast> for V {
        fn visit_expr_method_call(&mut self, m: &'ast syn::ExprMethodCall) {
            let name = m.method.to_string();
            if name == "get" || name == "remove" || name == "contains_key" {
                if let Some(syn::Expr::Lit(l)) = m.args.first() {
                    if let syn::Lit::Str(s) = &l.lit {
                        self.0.push(J::Str(s.value()));
                    }
                }
            }
            syn::visit::visit_expr_method_call(self, m);
        }
        fn visit_expr_index(&mut self, i: &'ast syn::ExprIndex) {
            if let syn::Expr::Lit(l) = &*i.index {
                if let syn::Lit::Str(s) = &l.lit {
                    self.0.push(J::Str(s.value()));
                }
            }
            syn::visit::visit_expr_index(self, i);
        }
    }
    let mut v = V(Vec::new());
    if let Ok(src) = std::fs::read_to_string(path) {
        if let Ok(f) = syn::parse_file(&src) {
            v.visit_file(&f);
        }
    }
    v.0
}

fn main() {
    let root = PathBuf::from(std::env::args().nth(1).expect("usage: synfacts <repo>"));
    let mut cx = Ctx { items: Vec::new(), files: Vec::new(), errors: Vec::new() };
    parse_file(&mut cx, "cooklang", "", &root.join("src/lib.rs"), &root.join("src"));
    parse_file(&mut cx, "cooklang_bindings", "", &root.join("bindings/src/lib.rs"), &root.join("bindings/src"));
    let keys = build_rs_keys(&root.join("build.rs"));
    let out = J::Obj(vec![
        ("items".into(), J::Arr(cx.items)),
        ("files".into(), J::Arr(cx.files)),
        ("errors".into(), J::Arr(cx.errors)),
        ("build_rs_keys".into(), J::Arr(keys)),
    ]);
    let mut s = String::new();
    out.write(&mut s);
    println!("{s}");
}
