#!/bin/sh
# Builds the analysis engines offline. Idempotent.
set -e
cd "$(dirname "$0")"
export CARGO_NET_OFFLINE=true
(cd engines/mirfacts && cargo build --offline --quiet 2>&1 | grep -v "^warning" | grep -v "^\s*$" || true)
test -x engines/mirfacts/target/debug/mirfacts
if [ -d engines/synfacts ]; then
  [ -f engines/synfacts/Cargo.lock ] || cp /repo/Cargo.lock engines/synfacts/Cargo.lock
  (cd engines/synfacts && cargo build --offline --quiet 2>&1 | grep -v "^warning" | grep -v "^\s*$" || true)
  test -x engines/synfacts/target/debug/synfacts
fi
echo "setup ok"
